// API-level call records: lets a second mesh (a "twin") be driven through exactly the same
// sequence of library calls with the same handle arguments (shape (c) of DESIGN.md).
#pragma once
#include "meshwrap.hh"
namespace vf {
struct Call {
    enum Op { ADD_V, ADD_NV, ADD_E, ADD_F, ADD_FV, ADD_C, DEL, SWAP, GC, CLEAR, DEFERRED, FAST, SET_E, SET_F, SET_C,
              TAG_V, TAG_E, TAG_F, TAG_C } op;
    int a = 0, b = 0, c = 0;
    std::vector<int> l;
};
inline Vec3d twin_pos_for(int id) { return Vec3d(id, 2.0 * id + 1, -0.5 * id); }

template <class K>
struct Twin {
    XMesh<K> mesh;
    ovm::VertexPropertyT<int> vtag; ovm::EdgePropertyT<int> etag; ovm::FacePropertyT<int> ftag; ovm::CellPropertyT<int> ctag;
    ovm::HalfEdgePropertyT<int> hetag; ovm::HalfFacePropertyT<int> hftag;
    Twin() : vtag(mesh.template request_vertex_property<int>("vf:v", -1)), etag(mesh.template request_edge_property<int>("vf:e", -1)),
             ftag(mesh.template request_face_property<int>("vf:f", -1)), ctag(mesh.template request_cell_property<int>("vf:c", -1)),
             hetag(mesh.template request_halfedge_property<int>("vf:he", -1)), hftag(mesh.template request_halfface_property<int>("vf:hf", -1)) {}
    void apply(const Call &c) {
        auto hes = [&] { std::vector<HalfEdgeHandle> v; for (int x : c.l) v.emplace_back(x); return v; };
        auto hfs = [&] { std::vector<HalfFaceHandle> v; for (int x : c.l) v.emplace_back(x); return v; };
        switch (c.op) {
        case Call::ADD_V: { auto h = mesh.add_vertex(twin_pos_for(c.a)); vtag[h] = c.a; break; }
        case Call::ADD_NV: mesh.add_n_vertices(c.a); break;
        case Call::ADD_E: mesh.add_edge(VertexHandle(c.a), VertexHandle(c.b), c.c); break;
        case Call::ADD_F: mesh.add_face(hes(), c.a); break;
        case Call::ADD_FV: { std::vector<VertexHandle> v; for (int x : c.l) v.emplace_back(x); mesh.add_face(v); break; }
        case Call::ADD_C: mesh.add_cell(hfs(), c.a); break;
        case Call::DEL:
            if (c.a == 0) mesh.delete_vertex(VertexHandle(c.b)); else if (c.a == 1) mesh.delete_edge(EdgeHandle(c.b));
            else if (c.a == 2) mesh.delete_face(FaceHandle(c.b)); else mesh.delete_cell(CellHandle(c.b));
            break;
        case Call::SWAP:
            if (c.a == 0) mesh.swap_vertex_indices(VertexHandle(c.b), VertexHandle(c.c)); else if (c.a == 1) mesh.swap_edge_indices(EdgeHandle(c.b), EdgeHandle(c.c));
            else if (c.a == 2) mesh.swap_face_indices(FaceHandle(c.b), FaceHandle(c.c)); else mesh.swap_cell_indices(CellHandle(c.b), CellHandle(c.c));
            break;
        case Call::GC: mesh.collect_garbage(); break;
        case Call::CLEAR: mesh.clear(c.a); break;
        case Call::DEFERRED: mesh.enable_deferred_deletion(c.a); break;
        case Call::FAST: mesh.enable_fast_deletion(c.a); break;
        case Call::SET_E: mesh.set_edge(EdgeHandle(c.a), VertexHandle(c.b), VertexHandle(c.c)); break;
        case Call::SET_F: mesh.set_face(FaceHandle(c.a), hes()); break;
        case Call::SET_C: mesh.set_cell(CellHandle(c.a), hfs()); break;
        case Call::TAG_V: vtag[VertexHandle(c.a)] = c.b; mesh.set_vertex(VertexHandle(c.a), twin_pos_for(c.b)); break;
        case Call::TAG_E: etag[EdgeHandle(c.a)] = c.b; hetag[HalfEdgeHandle(2 * c.a)] = 2 * c.b; hetag[HalfEdgeHandle(2 * c.a + 1)] = 2 * c.b + 1; break;
        case Call::TAG_F: ftag[FaceHandle(c.a)] = c.b; hftag[HalfFaceHandle(2 * c.a)] = 2 * c.b; hftag[HalfFaceHandle(2 * c.a + 1)] = 2 * c.b + 1; break;
        case Call::TAG_C: ctag[CellHandle(c.a)] = c.b; break;
        }
    }
};
} // namespace vf
