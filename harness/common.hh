// Common infrastructure of the monitor programs: PRNG, JSON output, case context,
// violation reporting, worker protocol.
#pragma once
#include <cstdint>
#include <cstdio>
#include <cstdlib>
#include <cstring>
#include <string>
#include <vector>
#include <map>
#include <set>
#include <sstream>
#include <functional>
#include <algorithm>
#include <stdexcept>

namespace vf {

// ---------------------------------------------------------------- PRNG (splitmix64 / xoshiro256**)
struct Rng {
    uint64_t s[4];
    static uint64_t splitmix(uint64_t &x) {
        uint64_t z = (x += 0x9e3779b97f4a7c15ULL);
        z = (z ^ (z >> 30)) * 0xbf58476d1ce4e5b9ULL;
        z = (z ^ (z >> 27)) * 0x94d049bb133111ebULL;
        return z ^ (z >> 31);
    }
    explicit Rng(uint64_t seed = 1) { reseed(seed); }
    void reseed(uint64_t seed) { for (auto &v : s) v = splitmix(seed); }
    static uint64_t rotl(uint64_t x, int k) { return (x << k) | (x >> (64 - k)); }
    uint64_t next() {
        uint64_t r = rotl(s[1] * 5, 7) * 9, t = s[1] << 17;
        s[2] ^= s[0]; s[3] ^= s[1]; s[1] ^= s[2]; s[0] ^= s[3]; s[2] ^= t; s[3] = rotl(s[3], 45);
        return r;
    }
    // uniform in [0,n)
    uint64_t below(uint64_t n) { return n ? next() % n : 0; }
    int range(int lo, int hi) { return lo + (int)below((uint64_t)(hi - lo + 1)); } // inclusive
    bool chance(int num, int den) { return (int)below(den) < num; }
    double unit() { return (next() >> 11) * (1.0 / 9007199254740992.0); }
    template <class V> auto &pick(V &v) { return v[below(v.size())]; }
    template <class V> void shuffle(V &v) {
        for (size_t i = v.size(); i > 1; --i) std::swap(v[i - 1], v[below(i)]);
    }
};

inline uint64_t mix(uint64_t a, uint64_t b) {
    uint64_t x = a * 0x9e3779b97f4a7c15ULL ^ (b + 0x7f4a7c15ULL + (a << 6) + (a >> 2));
    return Rng::splitmix(x);
}
inline uint64_t hash_str(const std::string &s) {
    uint64_t h = 1469598103934665603ULL;
    for (unsigned char c : s) { h ^= c; h *= 1099511628211ULL; }
    return h;
}

// ---------------------------------------------------------------- JSON helpers
inline std::string jstr(const std::string &s) {
    std::string o = "\"";
    for (unsigned char c : s) {
        if (c == '"' || c == '\\') { o += '\\'; o += (char)c; }
        else if (c == '\n') o += "\\n";
        else if (c == '\t') o += "\\t";
        else if (c < 0x20 || c >= 0x7f) { char b[8]; snprintf(b, sizeof b, "\\u%04x", c); o += b; }
        else o += (char)c;
    }
    return o + "\"";
}

// Ordered counter map -> JSON object
struct Counters {
    std::map<std::string, long long> m;
    void add(const std::string &k, long long v = 1) { m[k] += v; }
    long long get(const std::string &k) const { auto it = m.find(k); return it == m.end() ? 0 : it->second; }
    std::string json() const {
        std::string o = "{"; bool first = true;
        for (auto &kv : m) { if (!first) o += ","; first = false; o += jstr(kv.first) + ":" + std::to_string(kv.second); }
        return o + "}";
    }
};

// ---------------------------------------------------------------- case context
struct CaseFailed : std::exception {
    const char *what() const noexcept override { return "case failed"; }
};

struct Ctx {
    std::string prop;          // property id
    std::string tier = "quick";
    uint64_t master = 1;
    long long case_no = 0;
    Rng rng;
    std::vector<std::string> ops;      // human readable operation log of the current case
    Counters cnt;                      // what this case observed
    std::set<std::string> classes;     // situation classes seen
    std::vector<std::pair<std::string, std::string>> fails; // key, detail
    uint64_t digest = 1469598103934665603ULL;   // digest over op kinds (distinctness)
    bool stop_on_fail = true;
    std::string sample;                // optional written-out description of the case

    void op(const std::string &s) {
        static const bool trace = getenv("VF_TRACE") != nullptr;
        if (trace) { printf("OP %s\n", s.c_str()); fflush(stdout); }
        ops.push_back(s);
        // digest over the op *kind* (text up to first '(')
        auto p = s.find('(');
        digest = mix(digest, hash_str(s.substr(0, p)));
    }
    void fold(uint64_t v) { digest = mix(digest, v); }
    void cls(const std::string &c) { classes.insert(c); }
    // report a violation: key identifies the predicate+operation class (line numbers / values stripped)
    // records a violation but lets the case continue (used for findings that must not hide later checks)
    void soft_fail(const std::string &key, const std::string &detail) {
        for (auto &f : fails) if (f.first == key) return;
        fails.emplace_back(key, detail);
    }
    void fail(const std::string &key, const std::string &detail) {
        fails.emplace_back(key, detail);
        if (stop_on_fail) throw CaseFailed();
    }
};

inline Ctx *&cur() { static Ctx *c = nullptr; return c; }

inline bool tracing() { static const bool t = getenv("VF_TRACE") != nullptr; return t; }
// probe note: only materialised (and printed) when a single case is replayed with VF_TRACE
#define VF_NOTE(...) do { if (::vf::tracing()) { std::ostringstream _n; _n << __VA_ARGS__; printf("OP   ~ %s\n", _n.str().c_str()); fflush(stdout); } } while (0)
#define VF_FAIL(key, ...) do { std::ostringstream _o; _o << __VA_ARGS__; ::vf::cur()->fail(key, _o.str()); } while (0)
#define VF_CHECK(cond, key, ...) do { ::vf::cur()->cnt.add("predicates"); if (!(cond)) VF_FAIL(key, __VA_ARGS__); } while (0)

template <class T> std::string vec_str(const std::vector<T> &v) {
    std::ostringstream o; o << "[";
    for (size_t i = 0; i < v.size(); ++i) { if (i) o << ","; o << v[i]; }
    o << "]"; return o.str();
}

// ---------------------------------------------------------------- worker protocol
// A monitor is a function void(Ctx&) executing ONE case. run_cases drives a range of cases,
// printing BEGIN/END/FAIL lines the python driver parses. All output is line buffered/flushed
// so that the driver can attribute a crash to the last BEGIN.
using CaseFn = std::function<void(Ctx &)>;

inline int run_cases(const std::string &prop, const std::string &tier, uint64_t master,
                     long long from, long long to, long long stride, bool verbose, const CaseFn &fn) {
    int nfail = 0;
    for (long long c = from; c < to; c += stride) {
        Ctx ctx; ctx.prop = prop; ctx.tier = tier; ctx.master = master; ctx.case_no = c;
        ctx.rng.reseed(mix(mix(master, hash_str(prop)), (uint64_t)c));
        cur() = &ctx;
        printf("BEGIN %lld\n", c); fflush(stdout);
        try { fn(ctx); }
        catch (const CaseFailed &) {}
        catch (const std::exception &e) {
            ctx.fails.emplace_back(std::string("exception:") + typeid(e).name(), e.what());
        }
        for (auto &f : ctx.fails) {
            ++nfail;
            std::string ops = "[";
            for (size_t i = 0; i < ctx.ops.size(); ++i) { if (i) ops += ","; ops += jstr(ctx.ops[i]); }
            ops += "]";
            printf("FAIL %lld {\"key\":%s,\"detail\":%s,\"ops\":%s}\n", c, jstr(f.first).c_str(),
                   jstr(f.second).c_str(), ops.c_str());
        }
        std::string cls = "[";
        { bool first = true; for (auto &s : ctx.classes) { if (!first) cls += ","; first = false; cls += jstr(s); } }
        cls += "]";
        std::string extra;
        if (verbose || (c % 97) == 0) {
            std::string ops = "[";
            size_t lim = std::min<size_t>(ctx.ops.size(), verbose ? 100000 : 60);
            for (size_t i = 0; i < lim; ++i) { if (i) ops += ","; ops += jstr(ctx.ops[i]); }
            ops += "]";
            extra = ",\"ops\":" + ops;
            if (!ctx.sample.empty()) extra += ",\"sample\":" + jstr(ctx.sample);
        }
        printf("END %lld {\"digest\":\"%016llx\",\"nops\":%zu,\"cnt\":%s,\"classes\":%s%s}\n", c,
               (unsigned long long)ctx.digest, ctx.ops.size(), ctx.cnt.json().c_str(), cls.c_str(), extra.c_str());
        fflush(stdout);
        cur() = nullptr;
    }
    return nfail;
}

struct Args {
    std::string prop, tier = "quick", sub;
    uint64_t seed = 1;
    long long from = 0, to = 1, stride = 1;
    bool verbose = false;
    std::map<std::string, std::string> kv;
    long long num(const std::string &k, long long d) const {
        auto it = kv.find(k); return it == kv.end() ? d : atoll(it->second.c_str());
    }
    std::string str(const std::string &k, const std::string &d) const {
        auto it = kv.find(k); return it == kv.end() ? d : it->second;
    }
};

inline Args parse_args(int argc, char **argv) {
    Args a;
    if (argc > 1) a.prop = argv[1];
    for (int i = 2; i < argc; ++i) {
        std::string s = argv[i];
        auto val = [&](void) -> std::string { return i + 1 < argc ? argv[++i] : ""; };
        if (s == "--seed") a.seed = strtoull(val().c_str(), nullptr, 10);
        else if (s == "--tier") a.tier = val();
        else if (s == "--from") a.from = atoll(val().c_str());
        else if (s == "--to") a.to = atoll(val().c_str());
        else if (s == "--stride") a.stride = atoll(val().c_str());
        else if (s == "--sub") a.sub = val();
        else if (s == "--verbose") a.verbose = true;
        else if (s.rfind("--", 0) == 0) { std::string k = s.substr(2); a.kv[k] = val(); }
    }
    return a;
}

} // namespace vf
