// Random-history engine: drives one mesh through generated operation histories, keeps the
// id model in step, and runs the selected oracles after every operation.
#pragma once
#include "oracle_inc.hh"
#include "model.hh"
#include "calls.hh"
#include "oracle_fan.hh"
#include <OpenVolumeMesh/Attribs/StatusAttrib.hh>
#include <OpenVolumeMesh/Attribs/ColorAttrib.hh>
#include <OpenVolumeMesh/Attribs/TexCoordAttrib.hh>
#include <OpenVolumeMesh/Attribs/NormalAttrib.hh>
#include <OpenVolumeMesh/Attribs/InterfaceAttrib.hh>
#include <OpenVolumeMesh/FileManager/FileManager.hh>
#include <OpenVolumeMesh/IO/ovmb_read.hh>

namespace vf {

struct EngCfg {
    // oracles
    bool chk_inc = false;     // C01: incidence queries vs scan
    bool chk_model = true;    // C02/C04/C17: mesh == model in id space, counters, flags
    bool chk_props = false;   // C03: user property sizes / values / defaults
    bool chk_swap_exact = false; // C17: explicit handle-level relabeling check + double swap + self swap
    // workload
    int build_steps = 14;
    int steps = 30;
    bool allow_set = true, allow_swap = true, allow_toggle_bu = true, allow_modes = true,
         allow_clear = true, allow_props = false, allow_delete = true, allow_gc = true;
    bool allow_loops = true, allow_dups = true;
    int w_add = 10, w_del = 10, w_swap = 6, w_misc = 4, w_prop = 0;
    int init_mode = -1;       // -1 random; else bit0 deferred, bit1 fast
    int init_bu = -1;         // -1 random; else bit0 V, bit1 E, bit2 F
    bool full_bu_bias = false; // keep all incidences on most of the time
    int max_v = 14, max_e = 40, max_f = 30, max_c = 8;
    int fan_bias = 0;         // out of 10 build steps: build an edge fan (ring/chain of tets around an edge)
    int block_bias = 2;       // hex kernel: out of 10 build steps add a block of hexes
    bool allow_status_gc = false; // C04: StatusAttrib::garbage_collection with handle tracking / manifoldness
    bool chk_fan = false;     // C09 oracles after every step
    std::string load_base;    // start from a file of the repository's test data instead of an empty mesh
    bool attribs = false;     // C03: attach ColorAttrib/TexCoordAttrib/NormalAttrib/InterfaceAttrib/StatusAttrib and judge them through their accessors
    bool persistent_tags = false; // C13: identity tags survive mesh copies
    std::string prop_prefix = "p";
};

struct CellTemplate { const char *name; int nv; std::vector<std::vector<int>> faces; };
inline const std::vector<CellTemplate> &cell_templates() {
    static const std::vector<CellTemplate> t = {
        {"tet", 4, {{0, 1, 2}, {0, 2, 3}, {0, 3, 1}, {1, 3, 2}}},
        {"hex", 8, {{3, 2, 1, 0}, {7, 6, 5, 4}, {1, 2, 6, 7}, {4, 5, 3, 0}, {1, 7, 4, 0}, {2, 3, 5, 6}}},
        {"prism", 6, {{0, 2, 1}, {3, 4, 5}, {0, 1, 4, 3}, {1, 2, 5, 4}, {2, 0, 3, 5}}},
        {"pyramid", 5, {{0, 3, 2, 1}, {0, 1, 4}, {1, 2, 4}, {2, 3, 4}, {3, 0, 4}}},
        {"octa", 6, {{0, 1, 2}, {0, 2, 3}, {0, 3, 4}, {0, 4, 1}, {5, 2, 1}, {5, 3, 2}, {5, 4, 3}, {5, 1, 4}}},
        {"pillow", 3, {{0, 1, 2}, {0, 2, 1}}},
    };
    return t;
}

template <class K>
struct Engine {
    using M = XMesh<K>;
    static constexpr int KIND = KernelName<K>::kind;
    Ctx &ctx; Rng &rng; EngCfg cfg;
    std::unique_ptr<M> mesh_owner; M &mesh; Model model; Scan s;
    ovm::VertexPropertyT<int> vtag; ovm::EdgePropertyT<int> etag; ovm::FacePropertyT<int> ftag; ovm::CellPropertyT<int> ctag;
    std::vector<std::unique_ptr<IProp>> props;   // user properties incl. the two half-entity tag props
    IProp *hetag = nullptr, *hftag = nullptr;
    int prop_serial = 0;
    int init_mode_used = 0;
    std::vector<Call> *recorder = nullptr;   // API-level call stream for a twin mesh (C12)
    void rec(Call::Op op, int a = 0, int b = 0, int c = 0, std::vector<int> l = {}) { if (recorder) recorder->push_back(Call{op, a, b, c, std::move(l)}); }
    bool after_clear_props = false;   // clear(true) happened: held properties were anonymised

    void acquire_half_tags() {
        auto he = std::make_unique<PropT<int, ovm::Entity::HalfEdge>>(mesh.template request_halfedge_property<int>("vf:he", -1), "HE/int/tag");
        auto hf = std::make_unique<PropT<int, ovm::Entity::HalfFace>>(mesh.template request_halfface_property<int>("vf:hf", -1), "HF/int/tag");
        he->name = "vf:he"; hf->name = "vf:hf";
        if (hetag) { he->shadow = hetag->shadow; hf->shadow = hftag->shadow; props[0] = std::move(he); props[1] = std::move(hf); }
        else { props.push_back(std::move(he)); props.push_back(std::move(hf)); }
        hetag = props[0].get(); hftag = props[1].get();
        if (cfg.persistent_tags) {
            mesh.set_persistent(vtag); mesh.set_persistent(etag); mesh.set_persistent(ftag); mesh.set_persistent(ctag);
            mesh.set_persistent(static_cast<PropT<int, ovm::Entity::HalfEdge> *>(hetag)->p); mesh.set_persistent(static_cast<PropT<int, ovm::Entity::HalfFace> *>(hftag)->p);
        }
    }
    Engine(Ctx &c, const EngCfg &g) : ctx(c), rng(c.rng), cfg(g), mesh_owner(new M()), mesh(*mesh_owner),
        vtag(mesh.template request_vertex_property<int>("vf:v", -1)), etag(mesh.template request_edge_property<int>("vf:e", -1)),
        ftag(mesh.template request_face_property<int>("vf:f", -1)), ctag(mesh.template request_cell_property<int>("vf:c", -1)) {
        acquire_half_tags();
        int mode = cfg.init_mode >= 0 ? cfg.init_mode : (int)rng.below(4);
        // default of the library is deferred+fast
        init_mode_used = mode;
        mesh.enable_deferred_deletion(mode & 1); mesh.enable_fast_deletion(mode & 2);
        int bu = cfg.init_bu >= 0 ? cfg.init_bu : (cfg.full_bu_bias && rng.chance(3, 4) ? 7 : (int)rng.below(8));
        mesh.enable_vertex_bottom_up_incidences(bu & 1); mesh.enable_edge_bottom_up_incidences(bu & 2); mesh.enable_face_bottom_up_incidences(bu & 4);
        std::ostringstream o; o << "init(kernel=" << KernelName<K>::name() << ",deferred=" << (mode & 1) << ",fast=" << ((mode >> 1) & 1) << ",bu=" << bu << ")";
        ctx.op(o.str());
        rescan();
    }
    // copy-constructed twin of another engine's mesh (C13): the tag properties must be persistent in `src`
    // so that the copy carries them; the model and the tag shadows are taken over.
    struct CopyOf {};
    Engine(Ctx &c, const EngCfg &g, const Engine &src, CopyOf) : ctx(c), rng(c.rng), cfg(g), mesh_owner(new M(src.mesh)), mesh(*mesh_owner), model(src.model),
        vtag(mesh.template request_vertex_property<int>("vf:v", -1)), etag(mesh.template request_edge_property<int>("vf:e", -1)),
        ftag(mesh.template request_face_property<int>("vf:f", -1)), ctag(mesh.template request_cell_property<int>("vf:c", -1)) {
        acquire_half_tags();
        hetag->shadow = src.hetag->shadow; hftag->shadow = src.hftag->shadow;
        prop_serial = 1000;
        ctx.op("copy-construct mesh");
        rescan();
    }
    // mesh assignment from another engine's mesh; previously held property handles stay in `orphans`
    std::vector<std::unique_ptr<IProp>> orphans;
    template <class Src> void assign_from(const Src &src) {
        for (size_t i = 2; i < props.size(); ++i) orphans.push_back(std::move(props[i]));
        props.resize(2);
        ctx.op("mesh = other mesh");
        mesh = src.mesh;
        model = src.model;
        vtag = mesh.template request_vertex_property<int>("vf:v", -1); etag = mesh.template request_edge_property<int>("vf:e", -1);
        ftag = mesh.template request_face_property<int>("vf:f", -1); ctag = mesh.template request_cell_property<int>("vf:c", -1);
        // keep the old half-tag handles as orphans as well, then re-acquire
        orphans.push_back(std::move(props[0])); orphans.push_back(std::move(props[1]));
        props.clear(); hetag = hftag = nullptr;
        acquire_half_tags();
        hetag->shadow = src.hetag->shadow; hftag->shadow = src.hftag->shadow;
        rescan();
    }

    // ------------------------------------------------------------ helpers
    std::string cfgclass() const {
        std::ostringstream o;
        o << "d" << mesh.deferred_deletion_enabled() << "f" << mesh.fast_deletion_enabled() << "/bu"
          << mesh.has_vertex_bottom_up_incidences() << mesh.has_edge_bottom_up_incidences() << mesh.has_face_bottom_up_incidences();
        return o.str();
    }
    void rescan() { s.build(mesh); }
    static Vec3d pos_for(int id) { return Vec3d(id, 2.0 * id + 1, -0.5 * id); }
    bool deferred() const { return mesh.deferred_deletion_enabled(); }

    void tag_vertex(int h, int id) { rec(Call::TAG_V, h, id); vtag[VertexHandle(h)] = id; mesh.set_vertex(VertexHandle(h), pos_for(id)); }
    void tag_edge(int h, int id) {
        rec(Call::TAG_E, h, id);
        etag[EdgeHandle(h)] = id;
        auto *p = static_cast<PropT<int, ovm::Entity::HalfEdge> *>(hetag);
        for (int sd = 0; sd < 2; ++sd) { p->p[HalfEdgeHandle(2 * h + sd)] = 2 * id + sd; hetag->shadow[2 * id + sd] = std::to_string(2 * id + sd); }
    }
    void tag_face(int h, int id) {
        rec(Call::TAG_F, h, id);
        ftag[FaceHandle(h)] = id;
        auto *p = static_cast<PropT<int, ovm::Entity::HalfFace> *>(hftag);
        for (int sd = 0; sd < 2; ++sd) { p->p[HalfFaceHandle(2 * h + sd)] = 2 * id + sd; hftag->shadow[2 * id + sd] = std::to_string(2 * id + sd); }
    }
    void tag_cell(int h, int id) { rec(Call::TAG_C, h, id); ctag[CellHandle(h)] = id; }
    int vid(int h) const { return vtag[VertexHandle(h)]; }
    int eid(int h) const { return etag[EdgeHandle(h)]; }
    int fid(int h) const { return ftag[FaceHandle(h)]; }
    int cid(int h) const { return ctag[CellHandle(h)]; }
    int heid(int h) const { return 2 * eid(h >> 1) + (h & 1); }
    int hfid(int h) const { return 2 * fid(h >> 1) + (h & 1); }

    // register entities that an operation appended at the end of the arrays (ids from mesh definitions)
    void adopt_new(int nv0, int ne0, int nf0, int nc0) {
        for (int h = nv0; h < (int)mesh.n_vertices(); ++h) tag_vertex(h, model.add_v());
        for (int h = ne0; h < (int)mesh.n_edges(); ++h) {
            const auto &ed = mesh.edge(EdgeHandle(h));
            tag_edge(h, model.add_e(vid(ed.from_vertex().idx()), vid(ed.to_vertex().idx())));
        }
        for (int h = nf0; h < (int)mesh.n_faces(); ++h) {
            std::vector<int> hes;
            for (auto he : mesh.face(FaceHandle(h)).halfedges()) hes.push_back(heid(he.idx()));
            tag_face(h, model.add_f(hes));
        }
        for (int h = nc0; h < (int)mesh.n_cells(); ++h) {
            std::vector<int> hfs;
            for (auto hf : mesh.cell(CellHandle(h)).halffaces()) hfs.push_back(hfid(hf.idx()));
            tag_cell(h, model.add_c(hfs));
        }
    }

    std::vector<int> live_v() const { return s.live(0); }
    std::vector<int> live_e() const { return s.live(1); }
    std::vector<int> live_f() const { return s.live(2); }
    std::vector<int> live_c() const { return s.live(3); }

    // live edges joining x and y (either direction): returns halfedges x->y
    std::vector<int> halfedges_between(int x, int y) const {
        std::vector<int> r;
        for (int e = 0; e < s.ne; ++e) if (!s.edel[e]) {
            if (s.ev[e][0] == x && s.ev[e][1] == y) r.push_back(2 * e);
            if (s.ev[e][0] == y && s.ev[e][1] == x && x != y) r.push_back(2 * e + 1);
        }
        return r;
    }

    // ------------------------------------------------------------ operations
    int op_add_vertex() {
        int n0 = (int)mesh.n_vertices();
        int id = model.add_v();
        rec(Call::ADD_V, id);
        auto h = mesh.add_vertex(pos_for(id));
        ctx.op("add_vertex()->" + std::to_string(h.idx()));
        VF_CHECK(h.idx() == n0 && (int)mesh.n_vertices() == n0 + 1, "oracle:add_vertex.handle", "returned " << h.idx() << " expected " << n0);
        if (cfg.chk_props) check_fresh_defaults(0, n0, n0 + 1);
        vtag[h] = id;
        rescan(); return h.idx();
    }
    void op_add_n_vertices() {
        int n0 = (int)mesh.n_vertices(); int k = (int)rng.below(4);
        rec(Call::ADD_NV, k);
        mesh.add_n_vertices(k);
        ctx.op("add_n_vertices(" + std::to_string(k) + ")");
        VF_CHECK((int)mesh.n_vertices() == n0 + k, "oracle:add_n_vertices.count", "n=" << mesh.n_vertices() << " expected " << n0 + k);
        if (cfg.chk_props) check_fresh_defaults(0, n0, n0 + k);
        adopt_new(n0, (int)mesh.n_edges(), (int)mesh.n_faces(), (int)mesh.n_cells());
        rescan();
    }
    // returns halfedge a->b
    int op_add_edge(int a, int b, bool dup) {
        int n0 = (int)mesh.n_edges();
        auto existing = halfedges_between(a, b);
        rec(Call::ADD_E, a, b, dup);
        auto h = mesh.add_edge(VertexHandle(a), VertexHandle(b), dup);
        ctx.op("add_edge(" + std::to_string(a) + "," + std::to_string(b) + ",dup=" + std::to_string(dup) + ")->" + std::to_string(h.idx()));
        if (!dup && !existing.empty()) {
            ctx.cls("add_edge:dedup");
            VF_CHECK((int)mesh.n_edges() == n0, "oracle:add_edge.dedup-created", "an edge " << a << "-" << b << " exists but n_edges grew");
            VF_CHECK(h.idx() >= 0 && h.idx() < n0, "oracle:add_edge.dedup-handle", "returned " << h.idx());
            VF_CHECK(!mesh.is_deleted(h), "oracle:add_edge.returns-deleted", "returned deleted edge " << h.idx() << " [" << cfgclass() << "]");
            const auto &ed = mesh.edge(h);
            int f = ed.from_vertex().idx(), t = ed.to_vertex().idx();
            VF_CHECK((f == a && t == b) || (f == b && t == a), "oracle:add_edge.dedup-wrong", "returned edge " << h.idx() << " joins " << f << "," << t);
            rescan();
            return (f == a) ? 2 * h.idx() : 2 * h.idx() + 1;
        }
        if (h.idx() >= 0 && h.idx() < n0 && mesh.is_deleted(h))
            VF_FAIL("oracle:add_edge.returns-deleted", "no live edge joins " << a << " and " << b << " but add_edge returned the deleted edge " << h.idx() << " instead of creating one [" << cfgclass() << "]");
        VF_CHECK(h.idx() == n0 && (int)mesh.n_edges() == n0 + 1, "oracle:add_edge.handle", "returned " << h.idx() << " expected new " << n0 << " [" << cfgclass() << "] existing=" << existing.size());
        if (cfg.chk_props) { check_fresh_defaults(1, n0, n0 + 1); check_fresh_defaults(2, 2 * n0, 2 * n0 + 2); }
        const auto &ed = mesh.edge(h);
        VF_CHECK(ed.from_vertex().idx() == a && ed.to_vertex().idx() == b, "oracle:add_edge.def", "edge " << h.idx() << " stores " << ed.from_vertex().idx() << "," << ed.to_vertex().idx());
        tag_edge(h.idx(), model.add_e(vid(a), vid(b)));
        rescan();
        return 2 * h.idx();
    }
    // find or create a halfedge x->y
    int get_halfedge(int x, int y, bool may_dup) {
        auto ex = halfedges_between(x, y);
        if (x == y) { // loop edge: halfedge 0 of a loop
            std::vector<int> loops;
            for (int h : ex) if ((h & 1) == 0) loops.push_back(h);
            ex = loops;
        }
        if (!ex.empty() && !(may_dup && rng.chance(1, 6))) return rng.pick(ex);
        return op_add_edge(x, y, !ex.empty() || rng.chance(1, 4));
    }
    // build a closed loop of halfedges over distinct live vertices; returns empty if impossible
    std::vector<int> make_loop(int k) {
        auto lv = live_v();
        std::vector<int> hes;
        bool poly = KIND == 0;
        if (k == 1) {
            if (lv.empty() || !poly || !cfg.allow_loops) return {};
            int x = rng.pick(lv);
            hes.push_back(get_halfedge(x, x, false));
            return hes;
        }
        if ((int)lv.size() < k) return {};
        rng.shuffle(lv); lv.resize(k);
        if (k == 2) {
            if (!poly || !cfg.allow_dups) return {};
            int h0 = get_halfedge(lv[0], lv[1], false);
            // second halfedge must use a different edge
            auto ex = halfedges_between(lv[1], lv[0]);
            std::vector<int> other;
            for (int h : ex) if ((h >> 1) != (h0 >> 1)) other.push_back(h);
            int h1 = other.empty() ? op_add_edge(lv[1], lv[0], true) : rng.pick(other);
            return {h0, h1};
        }
        for (int i = 0; i < k; ++i) hes.push_back(get_halfedge(lv[i], lv[(i + 1) % k], poly && cfg.allow_dups));
        // a self-loop edge inside a longer face: ... -> x, x -> x, x -> ... is still a closed loop
        if (poly && cfg.allow_loops && rng.chance(1, 8)) { int i = (int)rng.below(k); hes.insert(hes.begin() + i, get_halfedge(lv[i], lv[i], false)); ctx.cls("face:with-inner-loop-edge"); }
        return hes;
    }
    int face_valence() {
        if (KIND == 1) return 3;
        if (KIND == 2) return 4;
        static const int w[] = {3, 3, 3, 4, 4, 5, 6, 7, 2, 1, 3, 4};
        return w[rng.below(sizeof w / sizeof *w)];
    }
    int op_add_face(std::vector<int> hes, bool check) {
        int n0 = (int)mesh.n_faces();
        std::vector<HalfEdgeHandle> hh; for (int h : hes) hh.emplace_back(h);
        rec(Call::ADD_F, check, 0, 0, hes);
        auto f = mesh.add_face(hh, check);
        ctx.op("add_face(hes=" + ivec(hes) + ",check=" + std::to_string(check) + ")->" + std::to_string(f.idx()));
        VF_CHECK(f.idx() == n0 && (int)mesh.n_faces() == n0 + 1, "oracle:add_face.handle", "closed loop " << ivec(hes) << " returned " << f.idx() << " expected " << n0);
        if (cfg.chk_props) { check_fresh_defaults(3, n0, n0 + 1); check_fresh_defaults(4, 2 * n0, 2 * n0 + 2); }
        std::vector<int> got; for (auto h : mesh.face(f).halfedges()) got.push_back(h.idx());
        VF_CHECK(got == hes, "oracle:add_face.def", "stored " << ivec(got) << " given " << ivec(hes));
        std::vector<int> ids; for (int h : hes) ids.push_back(heid(h));
        tag_face(f.idx(), model.add_f(ids));
        rescan();
        return f.idx();
    }
    void op_add_face_random() {
        int k = face_valence();
        auto hes = make_loop(k);
        if (hes.empty()) { op_add_vertex(); return; }
        op_add_face(hes, rng.chance(1, 2));
    }
    void op_add_face_vertices() {
        int k = KIND == 1 ? 3 : KIND == 2 ? 4 : 3 + (int)rng.below(4);
        auto lv = live_v();
        if ((int)lv.size() < k) { op_add_vertex(); return; }
        rng.shuffle(lv); lv.resize(k);
        // the vertex-based overload dedups edges through add_edge(); with parallel edges or without vertex
        // incidences + deferred-deleted look-alikes its choice is unspecified/defective (C11 covers that)
        int nv0 = s.nv, ne0 = s.ne, nf0 = s.nf, nc0 = s.nc;
        std::vector<VertexHandle> vh; for (int v : lv) vh.emplace_back(v);
        rec(Call::ADD_FV, 0, 0, 0, lv);
        auto f = mesh.add_face(vh);
        ctx.op("add_face(vertices=" + ivec(lv) + ")->" + std::to_string(f.idx()));
        VF_CHECK(f.idx() == nf0 && (int)mesh.n_faces() == nf0 + 1, "oracle:add_face(v).handle", "returned " << f.idx() << " expected " << nf0);
        // closed loop over exactly the requested vertices, every halfedge live
        const auto &hes = mesh.face(f).halfedges();
        VF_CHECK((int)hes.size() == k, "oracle:add_face(v).valence", "valence " << hes.size());
        for (int i = 0; i < k; ++i) {
            VF_CHECK(!mesh.is_deleted(hes[i]), "oracle:add_face(v).deleted-edge", "face uses deleted halfedge " << hes[i].idx() << " [" << cfgclass() << "]");
            VF_CHECK(mesh.from_vertex_handle(hes[i]).idx() == lv[i] && mesh.to_vertex_handle(hes[i]).idx() == lv[(i + 1) % k],
                     "oracle:add_face(v).loop", "halfedge " << i << " joins " << mesh.from_vertex_handle(hes[i]).idx() << "->" << mesh.to_vertex_handle(hes[i]).idx());
        }
        adopt_new(nv0, ne0, nf0, nc0);
        rescan();
    }

    // find a live face whose side `want` free halfface has exactly this vertex cycle (up to rotation)
    int find_free_halfface(const std::vector<int> &cyc) const {
        int k = (int)cyc.size();
        for (int hf = 0; hf < 2 * s.nf; ++hf) {
            if (s.fdel[hf >> 1] || !s.hf_cells[hf].empty()) continue;
            auto vs = s.hf_verts(hf);
            if ((int)vs.size() != k) continue;
            for (int r = 0; r < k; ++r) {
                bool ok = true;
                for (int i = 0; i < k && ok; ++i) ok = vs[(i + r) % k] == cyc[i];
                if (ok) return hf;
            }
        }
        return -1;
    }
    // halffaces (closed surface) for template t mapped to the vertices vmap; creates missing faces/edges.
    // With parallel edges in the mesh all faces of one cell must agree on WHICH edge joins two vertices,
    // otherwise the surface is not closed: `emap` fixes that choice per vertex pair.
    std::vector<int> realise_template(const CellTemplate &t, const std::vector<int> &vmap) {
        std::map<std::pair<int, int>, int> emap;   // (min,max) -> edge
        auto key = [](int a, int b) { return std::make_pair(std::min(a, b), std::max(a, b)); };
        std::vector<int> hfs(t.faces.size(), -1);
        std::vector<std::vector<int>> cycs;
        for (auto &tf : t.faces) { std::vector<int> cyc; for (int i : tf) cyc.push_back(vmap[i]); cycs.push_back(cyc); }
        // pass 1: reuse existing free halffaces whose edges are consistent with the choices made so far
        for (size_t fi = 0; fi < cycs.size(); ++fi) {
            int hf = find_free_halfface(cycs[fi]);
            if (hf < 0 || std::find(hfs.begin(), hfs.end(), hf) != hfs.end()) continue;
            bool ok = true;
            std::vector<std::pair<std::pair<int, int>, int>> add;
            for (int h : s.hf_hes(hf)) {
                auto k = key(s.from(h), s.to(h));
                auto it = emap.find(k);
                if (it != emap.end() && it->second != (h >> 1)) ok = false;
                add.push_back({k, h >> 1});
            }
            if (!ok) continue;
            for (auto &a : add) emap[a.first] = a.second;
            hfs[fi] = hf;
        }
        // pass 2: create the missing faces on the chosen (or new) edges
        for (size_t fi = 0; fi < cycs.size(); ++fi) {
            if (hfs[fi] >= 0) continue;
            const auto &cyc = cycs[fi];
            std::vector<int> hes; int k = (int)cyc.size();
            for (int i = 0; i < k; ++i) {
                int x = cyc[i], y = cyc[(i + 1) % k];
                auto it = emap.find(key(x, y));
                int h;
                if (it != emap.end()) { int e = it->second; h = (s.ev[e][0] == x && s.ev[e][1] == y) ? 2 * e : 2 * e + 1; }
                else { h = get_halfedge(x, y, false); emap[key(x, y)] = h >> 1; }
                hes.push_back(h);
            }
            std::set<int> es; for (int h : hes) es.insert(h >> 1);
            if ((int)es.size() != k) return {};
            hfs[fi] = 2 * op_add_face(hes, rng.chance(1, 3));
        }
        return hfs;
    }
    std::vector<int> choose_cell_vertices(const CellTemplate &t) {
        // glue onto an existing free halfface with some probability, else fresh / random vertices
        std::vector<int> vmap(t.nv, -1);
        std::set<int> used;
        if (rng.chance(3, 5)) {
            std::vector<int> cand;
            for (int hf = 0; hf < 2 * s.nf; ++hf) if (!s.fdel[hf >> 1] && s.hf_cells[hf].empty()) cand.push_back(hf);
            if (!cand.empty()) {
                int hf = rng.pick(cand);
                auto vs = s.hf_verts(hf);
                std::set<int> dv(vs.begin(), vs.end());
                if (dv.size() == vs.size()) {
                    std::vector<int> tfc;
                    for (int i = 0; i < (int)t.faces.size(); ++i) if (t.faces[i].size() == vs.size()) tfc.push_back(i);
                    if (!tfc.empty()) {
                        const auto &tf = t.faces[rng.pick(tfc)];
                        int r = (int)rng.below(vs.size());
                        for (size_t i = 0; i < tf.size(); ++i) { vmap[tf[i]] = vs[(i + r) % vs.size()]; used.insert(vmap[tf[i]]); }
                        ctx.cls("add_cell:glued-on-face");
                    }
                }
            }
        }
        auto lv = live_v();
        for (int i = 0; i < t.nv; ++i) if (vmap[i] < 0) {
            int v = -1;
            if (!lv.empty() && rng.chance(1, 4)) { int c = rng.pick(lv); if (!used.count(c)) v = c; }
            if (v < 0) v = op_add_vertex();
            vmap[i] = v; used.insert(v);
        }
        return vmap;
    }
    void op_add_cell_random() {
        const auto &T = cell_templates();
        int ti = KIND == 1 ? 0 : KIND == 2 ? 1 : (int)rng.below(T.size());
        const auto &t = T[ti];
        auto vmap = choose_cell_vertices(t);
        std::vector<int> hfs;
        if (ti == 5 && rng.chance(1, 2)) {
            // pillow made of both halffaces of one free face
            std::vector<int> cyc{vmap[0], vmap[1], vmap[2]};
            int hf = find_free_halfface(cyc);
            if (hf < 0 || !s.hf_cells[hf ^ 1].empty()) {
                std::vector<int> hes; for (int i = 0; i < 3; ++i) hes.push_back(get_halfedge(cyc[i], cyc[(i + 1) % 3], false));
                hf = 2 * op_add_face(hes, false);
            }
            hfs = {hf, hf ^ 1};
            ctx.cls("add_cell:both-halffaces-of-a-face");
        } else hfs = realise_template(t, vmap);
        if (hfs.empty()) return;
        bool check = rng.chance(1, 2);
        op_add_cell(hfs, check, t.name);
    }
    int op_add_cell(const std::vector<int> &hfs, bool check, const char *what) {
        int n0 = (int)mesh.n_cells();
        std::vector<HalfFaceHandle> hh; for (int h : hfs) hh.emplace_back(h);
        rec(Call::ADD_C, check, 0, 0, hfs);
        auto c = mesh.add_cell(hh, check);
        ctx.op(std::string("add_cell(") + what + ",hfs=" + ivec(hfs) + ",check=" + std::to_string(check) + ")->" + std::to_string(c.idx()));
        VF_CHECK(c.idx() == n0 && (int)mesh.n_cells() == n0 + 1, "oracle:add_cell.handle", "closed surface returned " << c.idx() << " expected " << n0);
        if (cfg.chk_props) check_fresh_defaults(5, n0, n0 + 1);
        std::vector<int> got; for (auto h : mesh.cell(c).halffaces()) got.push_back(h.idx());
        if (KIND == 2 && check) VF_CHECK(sorted(got) == sorted(hfs), "oracle:add_cell.def", "stored " << ivec(got) << " given " << ivec(hfs));
        else VF_CHECK(got == hfs, "oracle:add_cell.def", "stored " << ivec(got) << " given " << ivec(hfs));
        std::vector<int> ids; for (int h : got) ids.push_back(hfid(h));
        tag_cell(c.idx(), model.add_c(ids));
        rescan();
        return c.idx();
    }

    // ring or chains of tets around one edge, attached in random order (C09 workload)
    void op_add_fan() {
        if (KIND == 2) { op_add_hex_block(); return; }
        int k = 3 + (int)rng.below(6);
        bool closed = rng.chance(1, 2);
        int a = op_add_vertex(), b = op_add_vertex();
        std::vector<int> r; for (int i = 0; i < k; ++i) r.push_back(op_add_vertex());
        std::vector<int> idx; for (int i = 0; i < (closed ? k : k - 1); ++i) idx.push_back(i);
        rng.shuffle(idx);
        if (rng.chance(1, 3) && idx.size() > 2) idx.resize(idx.size() - 1 - rng.below(2));   // leave gaps: several chains
        ctx.cls(closed ? "fan:ring" : "fan:chain");
        const auto &t = cell_templates()[0];
        for (int i : idx) {
            std::vector<int> vmap{a, b, r[i], r[(i + 1) % k]};
            auto hfs = realise_template(t, vmap);
            if (hfs.empty()) continue;
            op_add_cell(hfs, rng.chance(1, 2), "fan-tet");
            check_all();
        }
    }
    // block of hexes (grid cells, random subset), vertices in OVM's hex order
    void op_add_hex_block() {
        int dx = 1 + (int)rng.below(3), dy = 1 + (int)rng.below(2), dz = 1 + (int)rng.below(2);
        std::vector<int> grid((dx + 1) * (dy + 1) * (dz + 1));
        for (auto &g : grid) g = op_add_vertex();
        auto at = [&](int x, int y, int z) { return grid[(z * (dy + 1) + y) * (dx + 1) + x]; };
        static const int off[8][3] = {{0, 0, 0}, {1, 0, 0}, {1, 1, 0}, {0, 1, 0}, {0, 0, 1}, {0, 1, 1}, {1, 1, 1}, {1, 0, 1}};
        std::vector<std::array<int, 3>> cells;
        for (int z = 0; z < dz; ++z) for (int y = 0; y < dy; ++y) for (int x = 0; x < dx; ++x) cells.push_back({x, y, z});
        rng.shuffle(cells);
        if (cells.size() > 2 && rng.chance(1, 2)) cells.resize(cells.size() - 1 - rng.below(std::min<size_t>(3, cells.size() - 1)));
        const auto &t = cell_templates()[1];
        ctx.cls("hex-block:" + std::to_string(dx) + "x" + std::to_string(dy) + "x" + std::to_string(dz));
        for (auto &c : cells) {
            std::vector<int> vmap(8);
            for (int i = 0; i < 8; ++i) vmap[i] = at(c[0] + off[i][0], c[1] + off[i][1], c[2] + off[i][2]);
            auto hfs = realise_template(t, vmap);
            if (hfs.empty()) continue;
            op_add_cell(hfs, rng.chance(1, 2), "block-hex");
            check_all();
        }
    }

    int pick_victim(const std::vector<int> &l) {
        int r = (int)rng.below(4);
        if (r == 0) return l.front();
        if (r == 1) return l.back();
        return rng.pick(l);
    }
    template <class It> void check_returned_iter(const It &it, int kind, int h, int n_after) {
        // deferred: next live entity after h, or end. immediate: the slot h itself (whatever moved there), or end.
        const std::vector<char> &del = kind == 0 ? s.vdel : kind == 1 ? s.edel : kind == 2 ? s.fdel : s.cdel;
        int idx = (*it).idx();
        if (it.valid()) {
            VF_CHECK(idx >= 0 && idx < n_after && !del[idx], "oracle:delete.return-iter", "kind " << kind << " returned iterator at " << idx << " (n=" << n_after << ")");
            if (deferred()) {
                int expect = h + 1; while (expect < n_after && del[expect]) ++expect;
                VF_CHECK(idx == expect, "oracle:delete.return-iter-next", "kind " << kind << " returned " << idx << " expected " << expect);
            }
        } else {
            int expect = deferred() ? h + 1 : h; while (expect < n_after && del[expect]) ++expect;
            // swap-with-last deletion hands back the end iterator; the statement does not speak about it
            if (deferred() || !mesh.fast_deletion_enabled()) VF_CHECK(expect >= n_after, "oracle:delete.return-iter-end", "kind " << kind << " returned end although live entity " << expect << " follows");
        }
    }
    void op_delete(int kind) {
        auto l = s.live(kind);
        if (l.empty()) return;
        int h = pick_victim(l);
        bool d = deferred();
        static const char *nm[] = {"delete_vertex", "delete_edge", "delete_face", "delete_cell"};
        ctx.op(std::string(nm[kind]) + "(" + std::to_string(h) + ")[" + cfgclass() + "]");
        rec(Call::DEL, kind, h);
        if (kind == 0) { int id = vid(h); auto it = mesh.delete_vertex(VertexHandle(h)); model.del_v(id, d); rescan(); check_returned_iter(it, 0, h, s.nv); }
        if (kind == 1) { int id = eid(h); auto it = mesh.delete_edge(EdgeHandle(h)); model.del_e(id, d); rescan(); check_returned_iter(it, 1, h, s.ne); }
        if (kind == 2) { int id = fid(h); auto it = mesh.delete_face(FaceHandle(h)); model.del_f(id, d); rescan(); check_returned_iter(it, 2, h, s.nf); }
        if (kind == 3) { int id = cid(h); auto it = mesh.delete_cell(CellHandle(h)); model.del_c(id, d); rescan(); check_returned_iter(it, 3, h, s.nc); }
        ctx.cnt.add(std::string("op.") + nm[kind]);
    }

    // full handle-level snapshot used for the exact swap checks: per kind the tag and deleted flag per slot,
    // definitions in id space, all user property values per slot
    struct Snap {
        std::vector<int> tag[4]; std::vector<char> del[4];
        std::vector<std::vector<std::string>> pv;
        std::vector<std::array<int, 2>> ev; std::vector<std::vector<int>> fhe, chf;
        bool operator==(const Snap &o) const {
            for (int k = 0; k < 4; ++k) if (tag[k] != o.tag[k] || del[k] != o.del[k]) return false;
            return pv == o.pv && ev == o.ev && fhe == o.fhe && chf == o.chf;
        }
    };
    Snap snapshot() {
        Snap sn;
        for (int h = 0; h < s.nv; ++h) { sn.tag[0].push_back(vid(h)); sn.del[0].push_back(s.vdel[h]); }
        for (int h = 0; h < s.ne; ++h) { sn.tag[1].push_back(eid(h)); sn.del[1].push_back(s.edel[h]); }
        for (int h = 0; h < s.nf; ++h) { sn.tag[2].push_back(fid(h)); sn.del[2].push_back(s.fdel[h]); }
        for (int h = 0; h < s.nc; ++h) { sn.tag[3].push_back(cid(h)); sn.del[3].push_back(s.cdel[h]); }
        sn.ev = s.ev; sn.fhe = s.fhe; sn.chf = s.chf;
        for (auto &p : props) { std::vector<std::string> v; size_t n = p->size() == (size_t)-1 ? (size_t)n_of_pkind(p->kind) : p->size(); for (size_t i = 0; i < n; ++i) v.push_back(p->get((int)i)); sn.pv.push_back(v); }
        return sn;
    }
    void do_swap(int kind, int a, int b) {
        rec(Call::SWAP, kind, a, b);
        if (kind == 0) mesh.swap_vertex_indices(VertexHandle(a), VertexHandle(b));
        if (kind == 1) mesh.swap_edge_indices(EdgeHandle(a), EdgeHandle(b));
        if (kind == 2) mesh.swap_face_indices(FaceHandle(a), FaceHandle(b));
        if (kind == 3) mesh.swap_cell_indices(CellHandle(a), CellHandle(b));
    }
    void op_swap(int kind, int a = -1, int b = -1) {
        int n = kind == 0 ? s.nv : kind == 1 ? s.ne : kind == 2 ? s.nf : s.nc;
        if (n == 0) return;
        if (a < 0) {
            a = (int)rng.below(n);
            int r = (int)rng.below(6);
            b = r == 0 ? a : r == 1 ? (a + 1) % n : r == 2 ? n - 1 : (int)rng.below(n);
        }
        static const char *nm[] = {"swap_vertex_indices", "swap_edge_indices", "swap_face_indices", "swap_cell_indices"};
        const std::vector<char> &del = kind == 0 ? s.vdel : kind == 1 ? s.edel : kind == 2 ? s.fdel : s.cdel;
        std::string cl = std::string(nm[kind]) + (a == b ? ":self" : (del[a] && del[b]) ? ":both-deleted" : (del[a] || del[b]) ? ":one-deleted" : ":live");
        ctx.cls(cl);
        ctx.op(std::string(nm[kind]) + "(" + std::to_string(a) + "," + std::to_string(b) + ")[" + cfgclass() + "]");
        ctx.cnt.add(std::string("op.") + nm[kind]);
        if (!cfg.chk_swap_exact) { do_swap(kind, a, b); rescan(); return; }
        Snap before = snapshot();
        do_swap(kind, a, b); rescan();
        Snap mid = snapshot();
        // exact relabeling at handle level: tags and deleted flags of a and b exchanged, all others untouched
        for (int k = 0; k < 4; ++k) for (size_t h = 0; h < before.tag[k].size(); ++h) {
            size_t src = h;
            if (k == kind && (int)h == a) src = b; else if (k == kind && (int)h == b) src = a;
            // deleted slots: only the flag is specified
            VF_CHECK(mid.del[k][h] == before.del[k][src], "oracle:swap.deleted-flag", nm[kind] << "(" << a << "," << b << ") kind " << k << " slot " << h);
            if (!mid.del[k][h]) VF_CHECK(mid.tag[k][h] == before.tag[k][src], "oracle:swap.tag", nm[kind] << "(" << a << "," << b << ") kind " << k << " slot " << h << " holds id " << mid.tag[k][h] << " expected " << before.tag[k][src]);
        }
        if (a == b) VF_CHECK(mid == before, "oracle:swap.self-not-noop", nm[kind] << "(" << a << "," << a << ") changed the mesh");
        // properties of the kind and its half kind: exchanged side by side at those slots (live slots only)
        for (size_t pi = 0; pi < props.size(); ++pi) {
            auto &p = props[pi]; int pk = p->kind;
            int base = pk == 0 ? 0 : (pk == 1 || pk == 2) ? 1 : (pk == 3 || pk == 4) ? 2 : pk == 5 ? 3 : -1;
            bool half = pk == 2 || pk == 4;
            if (base < 0 || before.pv[pi].size() != mid.pv[pi].size()) continue;
            for (size_t i = 0; i < mid.pv[pi].size(); ++i) {
                size_t ent = half ? i / 2 : i, side = half ? i % 2 : 0, src = ent;
                if (ent >= mid.del[base].size()) break;
                if (base == kind && (int)ent == a) src = b; else if (base == kind && (int)ent == b) src = a;
                if (mid.del[base][ent]) continue;
                size_t si = half ? 2 * src + side : src;
                VF_CHECK(mid.pv[pi][i] == before.pv[pi][si], "oracle:swap.property", nm[kind] << "(" << a << "," << b << ") property " << p->label << " slot " << i);
            }
        }
        // second identical swap restores the exact original state (for live slots; flags for all)
        do_swap(kind, a, b); rescan();
        Snap after = snapshot();
        bool same = true;
        for (int k = 0; k < 4 && same; ++k) {
            same = after.del[k] == before.del[k];
            for (size_t h = 0; h < after.tag[k].size() && same; ++h) if (!after.del[k][h]) same = after.tag[k][h] == before.tag[k][h];
        }
        for (int e = 0; e < s.ne && same; ++e) if (!s.edel[e]) same = after.ev[e] == before.ev[e];
        for (int f = 0; f < s.nf && same; ++f) if (!s.fdel[f]) same = after.fhe[f] == before.fhe[f];
        for (int c = 0; c < s.nc && same; ++c) if (!s.cdel[c]) same = after.chf[c] == before.chf[c];
        VF_CHECK(same, "oracle:swap.double-not-identity", nm[kind] << "(" << a << "," << b << ") twice does not restore the mesh");
        if (cfg.chk_inc) check_incidences(mesh, s);
        // leave the mesh in the swapped state (so that histories continue from a relabeled mesh)
        do_swap(kind, a, b); rescan();
    }
    void op_gc() {
        ctx.op("collect_garbage()[" + cfgclass() + "]");
        ctx.cnt.add("op.collect_garbage");
        if (model.any_pending()) ctx.cls("collect_garbage:pending");
        rec(Call::GC);
        mesh.collect_garbage();
        if (deferred()) model.gc();
        rescan();
    }
    // StatusAttrib::garbage_collection: status marks on random subsets of all four kinds, optional handle
    // tracking (all four handle kinds; incl. empty lists, duplicates, invalid handles) and manifoldness pass
    void op_status_gc() {
        ovm::StatusAttrib st(mesh);
        std::ostringstream o; o << "status_gc(";
        int density = (int)rng.below(4);   // 0: nothing marked
        auto mark = [&](int kind, const std::vector<int> &l) {
            std::vector<int> m;
            for (int h : l) if (density && (int)rng.below(8) < density) m.push_back(h);
            return m;
        };
        auto mv = mark(0, live_v()), me = mark(1, live_e()), mf = mark(2, live_f()), mc = mark(3, live_c());
        for (int h : mv) st[VertexHandle(h)].set_deleted(true);
        for (int h : me) st[EdgeHandle(h)].set_deleted(true);
        for (int h : mf) st[FaceHandle(h)].set_deleted(true);
        for (int h : mc) st[CellHandle(h)].set_deleted(true);
        bool manifold = rng.chance(1, 3);
        int track = (int)rng.below(3);   // 0 none (plain overload), 1 some, 2 many
        o << "marked v" << ivec(mv) << " e" << ivec(me) << " f" << ivec(mf) << " c" << ivec(mc) << ",manifold=" << manifold << ",track=" << track << ")[" << cfgclass() << "]";
        ctx.op(o.str());
        ctx.cnt.add("op.status_gc"); if (manifold) ctx.cnt.add("op.status_gc.manifold");
        // model: closure of the marks, then the pending deletions are collected
        for (int h : mv) model.del_v(vid(h), true);
        for (int h : me) model.del_e(eid(h), true);
        for (int h : mf) model.del_f(fid(h), true);
        for (int h : mc) model.del_c(cid(h), true);
        if (manifold) {
            for (int i = 0; i < (int)model.f.size(); ++i) if (model.f[i].live) {
                bool used = false;
                for (auto &c : model.c) if (c.live) for (int hf : c.hfs) if ((hf >> 1) == i) used = true;
                if (!used) model.del_f(i, true);
            }
            for (int i = 0; i < (int)model.e.size(); ++i) if (model.e[i].live) {
                bool used = false;
                for (auto &f : model.f) if (f.live) for (int h : f.hes) if ((h >> 1) == i) used = true;
                if (!used) model.del_e(i, true);
            }
            for (int i = 0; i < (int)model.v.size(); ++i) if (model.v[i]) {
                bool used = false;
                for (auto &e : model.e) if (e.live && (e.a == i || e.b == i)) used = true;
                if (!used) model.del_v(i, true);
            }
        }
        model.gc();
        // tracked handles: remember the id behind each one
        std::vector<VertexHandle> tv; std::vector<HalfEdgeHandle> the; std::vector<HalfFaceHandle> thf; std::vector<CellHandle> tc;
        std::vector<long long> iv, ihe, ihf, ic;   // expected id or -1 (entity removed / handle invalid)
        auto fill = [&](int n, auto &vec, auto &ids, auto idf, auto delf) {
            if (!track) return;
            int cntk = track == 1 ? (int)rng.below(3) : (int)rng.below(2 * n + 3);
            for (int i = 0; i < cntk; ++i) {
                int h = (n == 0 || rng.chance(1, 10)) ? -1 : (int)rng.below(n);   // duplicates arise naturally
                vec.emplace_back(h);
                ids.push_back(h < 0 || delf(h) ? -1 : idf(h));
            }
        };
        fill(s.nv, tv, iv, [&](int h) { return vid(h); }, [&](int h) { return (bool)s.vdel[h]; });
        fill(2 * s.ne, the, ihe, [&](int h) { return heid(h); }, [&](int h) { return (bool)s.edel[h >> 1]; });
        fill(2 * s.nf, thf, ihf, [&](int h) { return hfid(h); }, [&](int h) { return (bool)s.fdel[h >> 1]; });
        fill(s.nc, tc, ic, [&](int h) { return cid(h); }, [&](int h) { return (bool)s.cdel[h]; });
        std::vector<VertexHandle *> pv; for (auto &h : tv) pv.push_back(&h);
        std::vector<HalfEdgeHandle *> phe; for (auto &h : the) phe.push_back(&h);
        std::vector<HalfFaceHandle *> phf; for (auto &h : thf) phf.push_back(&h);
        std::vector<CellHandle *> pc; for (auto &h : tc) pc.push_back(&h);
        bool was_deferred = deferred();
        if (track) st.garbage_collection(pv, phe, phf, pc, manifold); else st.garbage_collection(manifold);
        rescan();
        VF_CHECK(deferred() == was_deferred, "oracle:status_gc.mode", "deferred deletion mode changed by garbage_collection");
        ctx.cnt.add("tracked-handles", (long long)(tv.size() + the.size() + thf.size() + tc.size()));
        auto verify = [&](const char *what, auto &vec, auto &ids, int n, auto idf, auto livef) {
            for (size_t i = 0; i < vec.size(); ++i) {
                long long id = ids[i];
                bool survives = id >= 0 && livef(id);
                if (survives) {
                    ctx.cnt.add("tracked.survivors");
                    VF_CHECK(vec[i].is_valid() && vec[i].idx() < n, "oracle:status_gc.tracked-lost", what << " handle of surviving id " << id << " became " << vec[i].idx());
                    VF_CHECK(idf(vec[i].idx()) == id, "oracle:status_gc.tracked-wrong", what << " handle now designates id " << idf(vec[i].idx()) << " instead of " << id);
                } else {
                    ctx.cnt.add("tracked.removed");
                    VF_CHECK(!vec[i].is_valid(), "oracle:status_gc.tracked-dangling", what << " handle of a removed entity is still valid: " << vec[i].idx());
                }
            }
        };
        verify("vertex", tv, iv, s.nv, [&](int h) { return (long long)vid(h); }, [&](long long id) { return (bool)model.v[id]; });
        verify("halfedge", the, ihe, 2 * s.ne, [&](int h) { return (long long)heid(h); }, [&](long long id) { return model.e[id >> 1].live; });
        verify("halfface", thf, ihf, 2 * s.nf, [&](int h) { return (long long)hfid(h); }, [&](long long id) { return model.f[id >> 1].live; });
        verify("cell", tc, ic, s.nc, [&](int h) { return (long long)cid(h); }, [&](long long id) { return model.c[id].live; });
        VF_CHECK(!mesh.needs_garbage_collection(), "oracle:status_gc.pending-left", "pending deletions remain after garbage_collection");
    }
    void op_clear() {
        bool cp = rng.chance(1, 2);
        ctx.op(std::string("clear(") + (cp ? "true" : "false") + ")");
        ctx.cnt.add("op.clear");
        rec(Call::CLEAR, cp);
        mesh.clear(cp);
        model.clear();
        for (auto &p : props) if (p->kind != 6) p->shadow.clear();   // the mesh itself (and its mesh properties) survives
        if (cp) after_clear_props = true;
        rescan();
        VF_CHECK(s.nv == 0 && s.ne == 0 && s.nf == 0 && s.nc == 0, "oracle:clear.counts", "mesh not empty after clear");
    }
    // reserve_*: capacity only - nothing observable may change (counts, definitions, property sizes and values)
    void op_reserve() {
        int kind = (int)rng.below(4); size_t cur = kind == 0 ? s.nv : kind == 1 ? s.ne : kind == 2 ? s.nf : s.nc;
        size_t n = rng.chance(1, 3) ? rng.below(cur + 1) : cur + rng.below(2 * cur + 8);
        static const char *nm[] = {"reserve_vertices", "reserve_edges", "reserve_faces", "reserve_cells"};
        ctx.op(std::string(nm[kind]) + "(" + std::to_string(n) + ")");
        ctx.cnt.add("op.reserve");
        if (kind == 0) mesh.reserve_vertices(n); else if (kind == 1) mesh.reserve_edges(n); else if (kind == 2) mesh.reserve_faces(n); else mesh.reserve_cells(n);
        rescan();
    }
    void op_toggle_bu() {
        int k = (int)rng.below(4); bool on = rng.chance(cfg.full_bu_bias ? 3 : 1, cfg.full_bu_bias ? 4 : 2);
        static const char *nm[] = {"enable_vertex_bottom_up_incidences", "enable_edge_bottom_up_incidences", "enable_face_bottom_up_incidences", "enable_bottom_up_incidences"};
        ctx.op(std::string(nm[k]) + "(" + std::to_string(on) + ")");
        ctx.cnt.add("op.toggle_bu");
        if (k == 0) mesh.enable_vertex_bottom_up_incidences(on);
        if (k == 1) mesh.enable_edge_bottom_up_incidences(on);
        if (k == 2) mesh.enable_face_bottom_up_incidences(on);
        if (k == 3) mesh.enable_bottom_up_incidences(on);
        rescan();
    }
    void op_mode() {
        if (rng.chance(1, 2)) {
            bool on = rng.chance(1, 2);
            ctx.op("enable_deferred_deletion(" + std::to_string(on) + ")[" + cfgclass() + "]");
            if (deferred() && !on && model.any_pending()) ctx.cls("leave-deferred:pending");
            bool was = deferred();
            rec(Call::DEFERRED, on);
            mesh.enable_deferred_deletion(on);
            if (was && !on) model.gc();
        } else {
            bool on = rng.chance(1, 2);
            ctx.op("enable_fast_deletion(" + std::to_string(on) + ")");
            rec(Call::FAST, on);
            mesh.enable_fast_deletion(on);
        }
        ctx.cnt.add("op.mode");
        rescan();
    }
    void op_set() {
        int k = (int)rng.below(3);
        if (k == 0) {
            // set_edge on an edge without live faces
            std::vector<int> c; for (int e : live_e()) if (s.he_hf[2 * e].empty()) c.push_back(e);
            auto lv = live_v();
            if (c.empty() || lv.size() < 2) return;
            int e = rng.pick(c); int a = rng.pick(lv), b = rng.pick(lv);
            if (a == b && (KIND != 0 || !cfg.allow_loops)) return;
            ctx.op("set_edge(" + std::to_string(e) + "," + std::to_string(a) + "," + std::to_string(b) + ")");
            rec(Call::SET_E, e, a, b);
            mesh.set_edge(EdgeHandle(e), VertexHandle(a), VertexHandle(b));
            model.e[eid(e)].a = vid(a); model.e[eid(e)].b = vid(b);
            ctx.cnt.add("op.set_edge");
        } else if (k == 1) {
            std::vector<int> c; for (int f : live_f()) if (s.hf_cells[2 * f].empty() && s.hf_cells[2 * f + 1].empty()) c.push_back(f);
            if (c.empty()) return;
            int f = rng.pick(c);
            auto hes = make_loop(face_valence());
            if (hes.empty()) return;
            std::set<int> es; for (int h : hes) es.insert(h >> 1);
            if (es.size() != hes.size()) return;
            ctx.op("set_face(" + std::to_string(f) + "," + ivec(hes) + ")");
            std::vector<HalfEdgeHandle> hh; for (int h : hes) hh.emplace_back(h);
            rec(Call::SET_F, f, 0, 0, hes);
            mesh.set_face(FaceHandle(f), hh);
            std::vector<int> ids; for (int h : hes) ids.push_back(heid(h));
            model.f[fid(f)].hes = ids;
            ctx.cnt.add("op.set_face");
        } else {
            auto lc = live_c();
            if (lc.empty() || KIND == 2) return;
            int c = rng.pick(lc);
            std::vector<int> hfs = s.chf[c];
            if (rng.chance(1, 2) || KIND == 1) { std::rotate(hfs.begin(), hfs.begin() + rng.below(hfs.size()), hfs.end()); }
            else {
                // move the cell onto a fresh closed surface (its old halffaces become free)
                const auto &t = cell_templates()[rng.below(cell_templates().size())];
                auto vmap = choose_cell_vertices(t);
                hfs = realise_template(t, vmap);
                if (hfs.empty()) return;
            }
            ctx.op("set_cell(" + std::to_string(c) + "," + ivec(hfs) + ")");
            std::vector<HalfFaceHandle> hh; for (int h : hfs) hh.emplace_back(h);
            rec(Call::SET_C, c, 0, 0, hfs);
            mesh.set_cell(CellHandle(c), hh);
            std::vector<int> ids; for (int h : hfs) ids.push_back(hfid(h));
            model.c[cid(c)].hfs = ids;
            ctx.cnt.add("op.set_cell");
        }
        rescan();
    }

    // ------------------------------------------------------------ user properties (C03)
    template <class T, class ET> void create_prop_t(int flavour) {
        std::string name = cfg.prop_prefix + std::to_string(prop_serial++);
        // the name must be free for this type and kind (after an assignment the mesh may hold properties brought by the source)
        while (mesh.template property_exists<T, ET>(name)) name = cfg.prop_prefix + std::to_string(prop_serial++) + "n";
        T def = Val<T>::make(rng);
        std::string lab = std::string(pkind_name(PKind<ET>::k)) + "/" + Val<T>::name() + "/" + (flavour == 0 ? "shared" : flavour == 1 ? "private" : "persistent");
        if (flavour == 0) props.push_back(std::make_unique<PropT<T, ET>>(mesh.template request_property<T, ET>(name, def), lab));
        else if (flavour == 1) props.push_back(std::make_unique<PropT<T, ET>>(mesh.template create_private_property<T, ET>(name, def), lab));
        else props.push_back(std::make_unique<PropT<T, ET>>(*mesh.template create_persistent_property<T, ET>(name, def), lab));
        props.back()->name = name; props.back()->flavour = flavour;
        ctx.op("create_property(" + lab + "," + name + ")");
        ctx.cls("prop:" + lab);
    }
    template <class ET> void create_prop_e(int type, int flavour) {
        switch (type) {
        case 0: create_prop_t<int, ET>(flavour); break;
        case 1: create_prop_t<bool, ET>(flavour); break;
        case 2: create_prop_t<double, ET>(flavour); break;
        case 3: create_prop_t<std::string, ET>(flavour); break;
        case 4: create_prop_t<Vec3d, ET>(flavour); break;
        case 5: create_prop_t<VertexHandle, ET>(flavour); break;
        default: create_prop_t<char, ET>(flavour); break;
        }
    }
    void op_create_prop() {
        int k = (int)rng.below(7), type = (int)rng.below(7), fl = (int)rng.below(3);
        switch (k) {
        case 0: create_prop_e<ovm::Entity::Vertex>(type, fl); break;
        case 1: create_prop_e<ovm::Entity::Edge>(type, fl); break;
        case 2: create_prop_e<ovm::Entity::HalfEdge>(type, fl); break;
        case 3: create_prop_e<ovm::Entity::Face>(type, fl); break;
        case 4: create_prop_e<ovm::Entity::HalfFace>(type, fl); break;
        case 5: create_prop_e<ovm::Entity::Cell>(type, fl); break;
        default: create_prop_e<ovm::Entity::Mesh>(type, fl); break;
        }
        ctx.cnt.add("op.create_prop");
    }
    void op_drop_prop() {
        if (props.size() <= 2) return;
        size_t i = 2 + rng.below(props.size() - 2);
        ctx.op("drop_property(" + props[i]->label + ")");
        props.erase(props.begin() + i);
        ctx.cnt.add("op.drop_prop");
    }
    int n_of_pkind(int pk) const { return pk == 0 ? s.nv : pk == 1 ? s.ne : pk == 2 ? 2 * s.ne : pk == 3 ? s.nf : pk == 4 ? 2 * s.nf : pk == 5 ? s.nc : 1; }
    bool slot_live(int pk, int i) const {
        switch (pk) { case 0: return !s.vdel[i]; case 1: return !s.edel[i]; case 2: return !s.edel[i >> 1];
                      case 3: return !s.fdel[i]; case 4: return !s.fdel[i >> 1]; case 5: return !s.cdel[i]; default: return true; }
    }
    long long slot_id(int pk, int i) const {
        switch (pk) { case 0: return vid(i); case 1: return eid(i); case 2: return heid(i); case 3: return fid(i); case 4: return hfid(i); case 5: return cid(i); default: return 0; }
    }
    void op_write_props() {
        if (props.size() <= 2) return;
        int writes = 1 + (int)rng.below(6);
        for (int w = 0; w < writes; ++w) {
            auto &p = props[2 + rng.below(props.size() - 2)];
            int n = p->size() == (size_t)-1 ? n_of_pkind(p->kind) : std::min<int>(n_of_pkind(p->kind), (int)p->size());
            if (n == 0) continue;
            int i = (int)rng.below(n);
            if (!slot_live(p->kind, i)) continue;
            p->shadow[slot_id(p->kind, i)] = p->set_random(i, rng);
            ctx.cnt.add("prop.writes");
        }
        ctx.op("write_properties(" + std::to_string(writes) + ")");
    }
    // new slots [from,to) of property kind pk must show each property's default value
    void check_fresh_defaults(int pk, int from, int to) {
        for (auto &p : props) if (p->kind == pk && p.get() != hetag && p.get() != hftag) {
            if (p->size() == (size_t)-1) { for (int i = from; i < to; ++i) { ctx.cnt.add("prop.default-checks"); VF_CHECK(p->get(i) == p->def(), "oracle:prop.fresh-default", p->label << " new slot " << i << " shows " << p->get(i) << " default " << p->def()); } continue; }
            VF_CHECK((int)p->size() >= to, "oracle:prop.size-after-add", p->label << " has " << p->size() << " slots, mesh needs " << to);
            for (int i = from; i < to; ++i) {
                ctx.cnt.add("prop.default-checks");
                VF_CHECK(p->get(i) == p->def(), "oracle:prop.fresh-default", p->label << " new slot " << i << " shows " << p->get(i) << " default " << p->def() << (after_clear_props ? " [after clear(true)]" : ""));
            }
        }
    }
    void check_props() {
        for (auto &p : props) {
            int n = n_of_pkind(p->kind);
            if (p->size() != (size_t)-1) VF_CHECK((int)p->size() == n, "oracle:prop.size", p->label << " has " << p->size() << " slots, mesh has " << n << " entities" << (after_clear_props ? " [after clear(true)]" : ""));
            VF_CHECK(p->attached(), "oracle:prop.detached", p->label << " reports being detached");
            for (int i = 0; i < n; ++i) {
                if (!slot_live(p->kind, i)) continue;
                long long id = slot_id(p->kind, i);
                auto it = p->shadow.find(id);
                std::string expect = it == p->shadow.end() ? p->def() : it->second;
                ctx.cnt.add("prop.value-checks");
                VF_CHECK(p->get(i) == expect, "oracle:prop.value", p->label << " slot " << i << " (id " << id << ") shows " << p->get(i) << " expected " << expect);
                if ((i & 7) == 0) VF_CHECK(p->get_at(i) == expect && p->iter_get(i) == expect, "oracle:prop.value-at", p->label << " slot " << i);
            }
        }
        // positions follow the same rule
        for (int v = 0; v < s.nv; ++v) if (!s.vdel[v]) {
            Vec3d e = pos_for(vid(v));
            VF_CHECK(mesh.vertex(VertexHandle(v)) == e, "oracle:prop.position", "vertex " << v << " (id " << vid(v) << ") position moved");
        }
    }

    // ------------------------------------------------------------ model equivalence (C02/C04/C17)
    void check_model() {
        VF_CHECK(s.wellformed, "oracle:model.dangling", "a live entity references a deleted or out-of-range sub-entity");
        // tags of live handles = live ids, each exactly once; definitions equal in id space
        auto bij = [&](int kind, int n, const std::vector<char> &del, auto idf, int nmodel, auto livef) {
            std::set<int> seen; int ndel = 0;
            for (int h = 0; h < n; ++h) {
                if (del[h]) { ++ndel; continue; }
                int id = idf(h);
                VF_CHECK(id >= 0 && id < nmodel && livef(id), "oracle:model.survivor", "kind " << kind << " handle " << h << " carries id " << id << " which the model says is gone/unknown [" << cfgclass() << "]");
                VF_CHECK(seen.insert(id).second, "oracle:model.duplicate", "kind " << kind << " id " << id << " appears twice");
            }
            VF_CHECK((int)seen.size() == model.live(kind), "oracle:model.lost", "kind " << kind << ": mesh has " << seen.size() << " live entities, model " << model.live(kind) << " [" << cfgclass() << "]");
            VF_CHECK(ndel == model.pending[kind], "oracle:model.pending", "kind " << kind << ": " << ndel << " deleted slots, model expects " << model.pending[kind] << " [" << cfgclass() << "]");
        };
        bij(0, s.nv, s.vdel, [&](int h) { return vid(h); }, (int)model.v.size(), [&](int id) { return (bool)model.v[id]; });
        bij(1, s.ne, s.edel, [&](int h) { return eid(h); }, (int)model.e.size(), [&](int id) { return model.e[id].live; });
        bij(2, s.nf, s.fdel, [&](int h) { return fid(h); }, (int)model.f.size(), [&](int id) { return model.f[id].live; });
        bij(3, s.nc, s.cdel, [&](int h) { return cid(h); }, (int)model.c.size(), [&](int id) { return model.c[id].live; });
        for (int e = 0; e < s.ne; ++e) if (!s.edel[e]) {
            const auto &me = model.e[eid(e)];
            VF_CHECK(vid(s.ev[e][0]) == me.a && vid(s.ev[e][1]) == me.b, "oracle:model.edge-def", "edge " << e << " (id " << eid(e) << ") joins ids " << vid(s.ev[e][0]) << "," << vid(s.ev[e][1]) << " model " << me.a << "," << me.b << " [" << cfgclass() << "]");
        }
        for (int f = 0; f < s.nf; ++f) if (!s.fdel[f]) {
            std::vector<int> ids; for (int h : s.fhe[f]) ids.push_back(heid(h));
            VF_CHECK(ids == model.f[fid(f)].hes, "oracle:model.face-def", "face " << f << " (id " << fid(f) << ") halfedge ids " << ivec(ids) << " model " << ivec(model.f[fid(f)].hes) << " [" << cfgclass() << "]");
        }
        for (int c = 0; c < s.nc; ++c) if (!s.cdel[c]) {
            std::vector<int> ids; for (int h : s.chf[c]) ids.push_back(hfid(h));
            VF_CHECK(ids == model.c[cid(c)].hfs, "oracle:model.cell-def", "cell " << c << " (id " << cid(c) << ") halfface ids " << ivec(ids) << " model " << ivec(model.c[cid(c)].hfs) << " [" << cfgclass() << "]");
        }
        // half-entity tags stay on their side
        for (int h = 0; h < 2 * s.ne; ++h) if (!s.edel[h >> 1] && (size_t)h < hetag->size())
            VF_CHECK(hetag->get(h) == std::to_string(heid(h)), "oracle:model.halfedge-side", "halfedge " << h << " carries tag " << hetag->get(h) << " expected " << heid(h));
        for (int h = 0; h < 2 * s.nf; ++h) if (!s.fdel[h >> 1] && (size_t)h < hftag->size())
            VF_CHECK(hftag->get(h) == std::to_string(hfid(h)), "oracle:model.halfface-side", "halfface " << h << " carries tag " << hftag->get(h) << " expected " << hfid(h));
        // counters and flags
        int lv = model.live(0), le = model.live(1), lf = model.live(2), lc = model.live(3);
        VF_CHECK((int)mesh.n_logical_vertices() == lv && (int)mesh.n_logical_edges() == le && (int)mesh.n_logical_faces() == lf && (int)mesh.n_logical_cells() == lc,
                 "oracle:model.n_logical", "n_logical " << mesh.n_logical_vertices() << "," << mesh.n_logical_edges() << "," << mesh.n_logical_faces() << "," << mesh.n_logical_cells() << " model " << lv << "," << le << "," << lf << "," << lc);
        VF_CHECK(mesh.n_logical_halfedges() == 2 * mesh.n_logical_edges() && mesh.n_logical_halffaces() == 2 * mesh.n_logical_faces() && mesh.n_halfedges() == 2 * mesh.n_edges() && mesh.n_halffaces() == 2 * mesh.n_faces(), "oracle:model.half-counts", "half-entity counts inconsistent");
        VF_CHECK(mesh.needs_garbage_collection() == model.any_pending(), "oracle:model.needs_gc", "needs_garbage_collection()=" << mesh.needs_garbage_collection() << " model pending=" << model.any_pending());
        int g = 1 - (lv - le + lf - lc); int eg = (g % 2 == 0) ? g / 2 : -1;
        VF_CHECK(mesh.genus() == eg, "oracle:model.genus", "genus() " << mesh.genus() << " formula " << eg);
        if (!deferred()) VF_CHECK(!model.any_pending() && s.nv == lv && s.ne == le && s.nf == lf && s.nc == lc, "oracle:model.immediate-leftover", "immediate mode but slots remain");
    }

    std::function<void()> after_step;
    void check_all() {
        if (after_step) after_step();
        ctx.cnt.add("checkpoints");
        ctx.cls(cfgclass());
        if (cfg.chk_model) check_model();
        if (cfg.chk_inc) check_incidences(mesh, s);
        if (cfg.chk_props) check_props();
        if (cfg.chk_fan) { check_fan_order(mesh, s); check_adjacent_in_cell(mesh, s); }
        if (model.live(3) > 0) ctx.cnt.add("checkpoints.with-cells");
        if (model.any_pending()) ctx.cnt.add("checkpoints.with-pending");
        ctx.fold((uint64_t)s.nv * 1000003 + s.ne * 10007 + s.nf * 101 + s.nc);
    }

    // ------------------------------------------------------------ driver
    void build_step() {
        if ((int)live_c().size() < cfg.max_c) {
            if (cfg.fan_bias && (int)rng.below(10) < cfg.fan_bias) { op_add_fan(); return; }
            if (KIND == 2 && (int)rng.below(10) < cfg.block_bias) { op_add_hex_block(); return; }
        }
        int r = (int)rng.below(10);
        if (s.nv < 3 || r == 0) { op_add_vertex(); return; }
        if (r == 1) { op_add_n_vertices(); return; }
        if (r == 2 && s.ne < cfg.max_e) {
            auto lv = live_v(); if (lv.size() < 2) { op_add_vertex(); return; }
            int a = rng.pick(lv), b = rng.pick(lv);
            bool poly = KIND == 0;
            if (model.pending[1] && rng.chance(1, 3)) {
                // re-add an edge that is deleted but not yet collected (either direction): a look-alike that must not be returned
                std::vector<int> cand;
                for (int x = 0; x < s.ne; ++x) if (s.edel[x] && s.ev[x][0] >= 0 && s.ev[x][0] < s.nv && s.ev[x][1] >= 0 && s.ev[x][1] < s.nv && !s.vdel[s.ev[x][0]] && !s.vdel[s.ev[x][1]] && s.ev[x][0] != s.ev[x][1]) cand.push_back(x);
                if (!cand.empty()) { int x = rng.pick(cand); bool rev = rng.chance(1, 2); ctx.cls("add_edge:re-add-deleted"); op_add_edge(s.ev[x][rev], s.ev[x][!rev], false); return; }
            }
            if (a == b && !(poly && cfg.allow_loops && rng.chance(1, 3))) return;
            bool dup = poly && cfg.allow_dups && rng.chance(1, 3);
            if (a == b) dup = true;
            op_add_edge(a, b, dup); return;
        }
        if (r <= 4 && s.nf < cfg.max_f) { if (KIND == 0 && rng.chance(1, 4) && mesh.has_vertex_bottom_up_incidences()) op_add_face_vertices(); else op_add_face_random(); return; }
        if ((int)live_c().size() < cfg.max_c && s.nf < cfg.max_f) op_add_cell_random();
        else op_add_vertex();
    }
    void mutate_step() {
        int tot = cfg.w_add + cfg.w_del + cfg.w_swap + cfg.w_misc + cfg.w_prop;
        int r = (int)rng.below(tot);
        if ((r -= cfg.w_add) < 0) { build_step(); return; }
        if ((r -= cfg.w_del) < 0) {
            if (!cfg.allow_delete) { build_step(); return; }
            int k = (int)rng.below(8); int kind = k < 1 ? 0 : k < 3 ? 1 : k < 5 ? 2 : 3;
            if (s.live(kind).empty()) kind = (kind + 1) % 4;
            op_delete(kind); return;
        }
        if ((r -= cfg.w_swap) < 0) {
            if (!cfg.allow_swap) { build_step(); return; }
            op_swap((int)rng.below(4)); return;
        }
        if ((r -= cfg.w_misc) < 0) {
            if (rng.chance(1, 10)) { op_reserve(); return; }
            int k = (int)rng.below(12);
            if (cfg.allow_status_gc && rng.chance(1, 2)) { op_status_gc(); return; }
            if (k < 3 && cfg.allow_gc) op_gc();
            else if (k < 6 && cfg.allow_toggle_bu) op_toggle_bu();
            else if (k < 8 && cfg.allow_modes) op_mode();
            else if (k < 9 && cfg.allow_clear) op_clear();
            else if (cfg.allow_set) op_set();
            else build_step();
            return;
        }
        int k = (int)rng.below(10);
        if (k < 2) op_create_prop(); else if (k < 3) op_drop_prop(); else op_write_props();
    }
    // start from a loaded mesh (C01: "starting from an empty, generated or loaded mesh")
    void load_file(const std::string &path) {
        bool ok;
        if (path.size() > 5 && path.substr(path.size() - 5) == ".ovmb") { ovm::IO::ReadOptions o; o.topology_check = false; ok = ovm::IO::ovmb_read(path.c_str(), mesh, o) == ovm::IO::ReadResult::Ok; }
        else { ovm::IO::FileManager fm; fm.setVerbosityLevel(0); ok = fm.readFile(path, mesh, false, true); }
        ctx.op("load(" + path.substr(path.find_last_of('/') + 1) + ")->" + std::to_string(ok));
        ctx.cls("base:loaded-file");
        model.clear(); for (auto &p : props) p->shadow.clear();
        rescan();
        adopt_new(0, 0, 0, 0);
        rescan();
    }
    void attach_attribs() {
        namespace E = ovm::Entity;
        Vec3d cdef(0.25, 0.5, 0.75), tdef(1, 2, 3);
        auto col = std::make_shared<ovm::ColorAttrib<Vec3d>>(mesh, cdef);
        auto tex = std::make_shared<ovm::TexCoordAttrib<Vec3d>>(mesh, tdef);
        auto nrm = std::make_shared<ovm::NormalAttrib<M>>(mesh);
        auto itf = std::make_shared<ovm::InterfaceAttrib>(mesh);
        auto sta = std::make_shared<ovm::StatusAttrib>(mesh);
        std::string cd = Val<Vec3d>::repr(cdef), td = Val<Vec3d>::repr(tdef), zd = Val<Vec3d>::repr(Vec3d(0, 0, 0)), sd = Val<ovm::OpenVolumeMeshStatus>::repr(ovm::OpenVolumeMeshStatus());
        using CA = ovm::ColorAttrib<Vec3d>; using ST = ovm::OpenVolumeMeshStatus;
        props.push_back(std::make_unique<AttribProp<CA, VertexHandle, Vec3d, 0>>(col, "V/ColorAttrib", cd)); props.push_back(std::make_unique<AttribProp<CA, EdgeHandle, Vec3d, 1>>(col, "E/ColorAttrib", cd));
        props.push_back(std::make_unique<AttribProp<CA, HalfEdgeHandle, Vec3d, 2>>(col, "HE/ColorAttrib", cd)); props.push_back(std::make_unique<AttribProp<CA, FaceHandle, Vec3d, 3>>(col, "F/ColorAttrib", cd));
        props.push_back(std::make_unique<AttribProp<CA, HalfFaceHandle, Vec3d, 4>>(col, "HF/ColorAttrib", cd)); props.push_back(std::make_unique<AttribProp<CA, CellHandle, Vec3d, 5>>(col, "C/ColorAttrib", cd));
        props.push_back(std::make_unique<AttribProp<ovm::TexCoordAttrib<Vec3d>, VertexHandle, Vec3d, 0>>(tex, "V/TexCoordAttrib", td));
        props.push_back(std::make_unique<AttribProp<ovm::NormalAttrib<M>, VertexHandle, Vec3d, 0>>(nrm, "V/NormalAttrib", zd)); props.push_back(std::make_unique<AttribProp<ovm::NormalAttrib<M>, FaceHandle, Vec3d, 3>>(nrm, "F/NormalAttrib", zd));
        props.push_back(std::make_unique<AttribProp<ovm::InterfaceAttrib, VertexHandle, bool, 0>>(itf, "V/InterfaceAttrib", "0")); props.push_back(std::make_unique<AttribProp<ovm::InterfaceAttrib, EdgeHandle, bool, 1>>(itf, "E/InterfaceAttrib", "0"));
        props.push_back(std::make_unique<AttribProp<ovm::InterfaceAttrib, FaceHandle, bool, 3>>(itf, "F/InterfaceAttrib", "0"));
        props.push_back(std::make_unique<AttribProp<ovm::StatusAttrib, VertexHandle, ST, 0>>(sta, "V/StatusAttrib", sd)); props.push_back(std::make_unique<AttribProp<ovm::StatusAttrib, EdgeHandle, ST, 1>>(sta, "E/StatusAttrib", sd));
        props.push_back(std::make_unique<AttribProp<ovm::StatusAttrib, HalfEdgeHandle, ST, 2>>(sta, "HE/StatusAttrib", sd)); props.push_back(std::make_unique<AttribProp<ovm::StatusAttrib, FaceHandle, ST, 3>>(sta, "F/StatusAttrib", sd));
        props.push_back(std::make_unique<AttribProp<ovm::StatusAttrib, HalfFaceHandle, ST, 4>>(sta, "HF/StatusAttrib", sd)); props.push_back(std::make_unique<AttribProp<ovm::StatusAttrib, CellHandle, ST, 5>>(sta, "C/StatusAttrib", sd));
        ctx.op("attach ColorAttrib, TexCoordAttrib, NormalAttrib, InterfaceAttrib, StatusAttrib");
        ctx.cls("attribs-attached");
    }
    void run() {
        if (!cfg.load_base.empty()) load_file(cfg.load_base);
        if (cfg.attribs) attach_attribs();
        if (cfg.allow_props) { int n = 3 + (int)rng.below(5); for (int i = 0; i < n; ++i) op_create_prop(); }
        for (int i = 0; i < cfg.build_steps; ++i) { build_step(); if (cfg.allow_props && rng.chance(1, 2)) op_write_props(); check_all(); }
        for (int i = 0; i < cfg.steps; ++i) { mutate_step(); check_all(); }
    }
};

extern template struct Engine<PolyK>;
extern template struct Engine<TetK>;
extern template struct Engine<HexK>;
} // namespace vf
