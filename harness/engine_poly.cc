#include "engine.hh"
namespace vf { template struct Engine<PolyK>; }
