// Fault-injecting stream buffers: an input buffer that stops delivering data (or throws) at byte k while
// still reporting the full size through seeking, and an output buffer that accepts only k bytes.
#pragma once
#include <streambuf>
#include <string>
#include <ios>
#include <cstring>
#include <algorithm>

namespace vf {

class FaultyInBuf : public std::streambuf {
public:
    enum Mode { FAIL_READ, THROW };
    FaultyInBuf(const std::string &data, size_t fail_at, Mode mode) : d_(data), fail_at_(fail_at), mode_(mode) { reset(0); }
    bool fired() const { return fired_; }
protected:
    int_type underflow() override {
        size_t pos = cur();
        if (pos >= fail_at_ || pos >= d_.size()) { if (pos >= fail_at_ && pos < d_.size()) { fired_ = true; if (mode_ == THROW) throw std::ios_base::failure("injected read failure"); } return traits_type::eof(); }
        return traits_type::to_int_type(d_[pos]);
    }
    std::streamsize xsgetn(char *s, std::streamsize n) override {
        size_t pos = cur(); size_t lim = std::min(fail_at_, d_.size());
        size_t can = pos < lim ? std::min<size_t>((size_t)n, lim - pos) : 0;
        if (can) memcpy(s, d_.data() + pos, can);
        reset(pos + can);
        if ((std::streamsize)can < n && pos + can >= fail_at_ && pos + can < d_.size()) { fired_ = true; if (mode_ == THROW) throw std::ios_base::failure("injected read failure"); }
        return (std::streamsize)can;
    }
    pos_type seekoff(off_type off, std::ios_base::seekdir dir, std::ios_base::openmode) override {
        long long base = dir == std::ios_base::beg ? 0 : dir == std::ios_base::cur ? (long long)cur() : (long long)d_.size();
        long long np = base + off; if (np < 0 || np > (long long)d_.size()) return pos_type(off_type(-1));
        reset((size_t)np); return pos_type(np);
    }
    pos_type seekpos(pos_type p, std::ios_base::openmode m) override { return seekoff(off_type(p), std::ios_base::beg, m); }
private:
    size_t cur() const { return (size_t)(gptr() - eback()); }
    void reset(size_t pos) { char *b = const_cast<char *>(d_.data()); size_t lim = std::min(fail_at_, d_.size()); setg(b, b + std::min(pos, d_.size()), b + std::max(lim, std::min(pos, d_.size()))); if (pos > lim) setg(b, b + pos, b + pos); }
    const std::string &d_; size_t fail_at_; Mode mode_; bool fired_ = false;
};

class FaultyOutBuf : public std::streambuf {
public:
    explicit FaultyOutBuf(size_t limit) : limit_(limit) {}
    const std::string &data() const { return d_; }
    bool fired() const { return fired_; }
protected:
    int_type overflow(int_type c) override {
        if (traits_type::eq_int_type(c, traits_type::eof())) return traits_type::not_eof(c);
        if (d_.size() >= limit_) { fired_ = true; return traits_type::eof(); }
        d_ += traits_type::to_char_type(c); return c;
    }
    std::streamsize xsputn(const char *s, std::streamsize n) override {
        size_t can = d_.size() < limit_ ? std::min<size_t>((size_t)n, limit_ - d_.size()) : 0;
        d_.append(s, can); if ((std::streamsize)can < n) fired_ = true;
        return (std::streamsize)can;
    }
private:
    std::string d_; size_t limit_; bool fired_ = false;
};

} // namespace vf
