// Shared pieces of the I/O monitors (C06, C07, C18): canonical mesh form with bit-exact property
// values, typed property generation/extraction, mesh generation for files, stream helpers.
#pragma once
#include "engine.hh"
#include <OpenVolumeMesh/IO/IO.hh>
#include <OpenVolumeMesh/IO/ovmb_write.hh>
#include <OpenVolumeMesh/FileManager/FileManager.hh>
#include <sstream>

namespace vf {
namespace G = ovm::Geometry;

inline std::string hex(const void *p, size_t n) { static const char *d = "0123456789abcdef"; std::string s; const unsigned char *b = (const unsigned char *)p; for (size_t i = 0; i < n; ++i) { s += d[b[i] >> 4]; s += d[b[i] & 15]; } return s; }
template <class I> std::string le(I v) { unsigned char b[sizeof(I)]; for (size_t i = 0; i < sizeof(I); ++i) b[i] = (unsigned char)((typename std::make_unsigned<I>::type)v >> (8 * i)); return hex(b, sizeof(I)); }
inline std::string lef(float f) { uint32_t u; memcpy(&u, &f, 4); return le(u); }
inline std::string led(double f) { uint64_t u; memcpy(&u, &f, 8); return le(u); }

// ---- value traits: canonical little-endian encoding (hex), random values, OVMB / ASCII type names
template <class T, class = void> struct IoVal;
#define IO_INT(T, OV, AS) template <> struct IoVal<T> { static std::string enc(T v) { return le(v); } static T make(Rng &r, bool ascii) { (void)ascii; uint64_t x = r.next(); int k = (int)r.below(6); if (k == 0) x = 0; if (k == 1) x = ~0ULL; if (k == 2) x &= 0xff; \
        T v = (T)x; if (ascii && sizeof(T) == 1) v = (T)('!' + r.below(90)); return v; } static const char *ovmb() { return OV; } static const char *ascii() { return AS; } static bool is_float() { return false; } };
IO_INT(uint8_t, "u8", "uchar") IO_INT(uint16_t, "u16", nullptr) IO_INT(uint32_t, "u32", "uint") IO_INT(uint64_t, "u64", "ulong")
IO_INT(int8_t, "i8", nullptr) IO_INT(int16_t, "i16", "short") IO_INT(int32_t, "i32", "int") IO_INT(int64_t, "i64", "long")
IO_INT(char, nullptr, "char")
#undef IO_INT
template <> struct IoVal<bool> { static std::string enc(bool v) { return v ? "01" : "00"; } static bool make(Rng &r, bool) { return r.chance(1, 2); } static const char *ovmb() { return "b"; } static const char *ascii() { return "bool"; } static bool is_float() { return false; } };
template <> struct IoVal<float> { static std::string enc(float v) { return lef(v); }
    static float make(Rng &r, bool ascii) { if (ascii) return ((int)r.below(80000) - 40000) / 4.0f;   /* exactly printable with 6 significant digits */ int k = (int)r.below(8); if (k == 0) return 0.f; if (k == 1 && !ascii) return -0.f; if (k == 2 && !ascii) return std::numeric_limits<float>::denorm_min(); if (k == 3 && !ascii) return std::numeric_limits<float>::infinity(); if (k == 4 && !ascii) return std::nanf("");
        return (float)((r.unit() - 0.5) * std::ldexp(1.0, (int)r.below(40) - 20)); }
    static const char *ovmb() { return "f"; } static const char *ascii() { return "float"; } static bool is_float() { return true; } };
template <> struct IoVal<double> { static std::string enc(double v) { return led(v); }
    static double make(Rng &r, bool ascii) { if (ascii) return ((int)r.below(80000) - 40000) / 4.0; int k = (int)r.below(8); if (k == 0) return 0.; if (k == 1 && !ascii) return -0.; if (k == 2 && !ascii) return std::numeric_limits<double>::denorm_min(); if (k == 3 && !ascii) return -std::numeric_limits<double>::infinity(); if (k == 4 && !ascii) return std::nan("");
        return (r.unit() - 0.5) * std::ldexp(1.0, (int)r.below(80) - 40); }
    static const char *ovmb() { return "d"; } static const char *ascii() { return "double"; } static bool is_float() { return true; } };
template <> struct IoVal<std::string> { static std::string enc(const std::string &v) { return "s" + hex(v.data(), v.size()); }
    static std::string make(Rng &r, bool ascii) { std::string s; int n = (int)r.below(12); for (int i = 0; i < n; ++i) s += ascii ? (char)(' ' + r.below(95)) : (char)r.below(256); return s; }
    static const char *ovmb() { return "s32"; } static const char *ascii() { return "string"; } static bool is_float() { return false; } };
#define IO_HANDLE(T, OV) template <> struct IoVal<T> { static std::string enc(T v) { return le((int32_t)v.idx()); } static T make(Rng &r, bool) { return T((int)r.below(100000) - 1); } static const char *ovmb() { return OV; } static const char *ascii() { return nullptr; } static bool is_float() { return false; } };
IO_HANDLE(VertexHandle, "vh") IO_HANDLE(EdgeHandle, "eh") IO_HANDLE(HalfEdgeHandle, "heh") IO_HANDLE(FaceHandle, "fh") IO_HANDLE(HalfFaceHandle, "hfh") IO_HANDLE(CellHandle, "ch")
#undef IO_HANDLE
#define IO_VEC(S, D, OV, AS) template <> struct IoVal<G::VectorT<S, D>> { using V = G::VectorT<S, D>; static std::string enc(const V &v) { std::string s; for (int i = 0; i < D; ++i) s += IoVal<S>::enc(v[i]); return s; } \
    static V make(Rng &r, bool a) { V v; for (int i = 0; i < D; ++i) v[i] = IoVal<S>::make(r, a); return v; } static const char *ovmb() { return OV; } static const char *ascii() { return AS; } static bool is_float() { return IoVal<S>::is_float(); } };
IO_VEC(double, 2, "2d", "vec2d") IO_VEC(double, 3, "3d", "vec3d") IO_VEC(double, 4, "4d", "vec4d") IO_VEC(float, 2, "2f", "vec2f") IO_VEC(float, 3, "3f", "vec3f") IO_VEC(float, 4, "4f", "vec4f")
IO_VEC(uint32_t, 2, "2u32", "vec2ui") IO_VEC(uint32_t, 3, "3u32", "vec3ui") IO_VEC(uint32_t, 4, "4u32", "vec4ui") IO_VEC(int32_t, 2, "2i32", "vec2i") IO_VEC(int32_t, 3, "3i32", "vec3i") IO_VEC(int32_t, 4, "4i32", "vec4i")
#undef IO_VEC

// list of all value types handled by the monitors
#define IO_TYPES(X) X(bool) X(uint8_t) X(uint16_t) X(uint32_t) X(uint64_t) X(int8_t) X(int16_t) X(int32_t) X(int64_t) X(char) X(float) X(double) X(std::string) \
    X(VertexHandle) X(EdgeHandle) X(HalfEdgeHandle) X(FaceHandle) X(HalfFaceHandle) X(CellHandle) \
    X(G::Vec2d) X(G::Vec3d) X(G::Vec4d) X(G::Vec2f) X(G::Vec3f) X(G::Vec4f) X(G::Vec2ui) X(G::Vec3ui) X(G::Vec4ui) X(G::Vec2i) X(G::Vec3i) X(G::Vec4i)
constexpr int IO_NTYPES = 31;

// ---- canonical form
struct CanonProp { int kind; std::string name, type; std::string def; std::vector<std::string> vals; bool has_def = true; };
struct Canon {
    int dim = 3; int topo_type = 0;
    std::vector<std::string> pos;     // per vertex: 3 doubles LE hex
    std::vector<std::array<int, 2>> ev; std::vector<std::vector<int>> fhe, chf;
    std::map<std::string, CanonProp> props;   // key kind/name/type
    static std::string key(int kind, const std::string &n, const std::string &t) { return std::to_string(kind) + "/" + n + "/" + t; }
    std::string diff(const Canon &o, bool with_def = true, bool with_props = true) const {
        std::ostringstream d;
        if (pos.size() != o.pos.size() || ev.size() != o.ev.size() || fhe.size() != o.fhe.size() || chf.size() != o.chf.size())
            d << "counts " << pos.size() << "/" << ev.size() << "/" << fhe.size() << "/" << chf.size() << " vs " << o.pos.size() << "/" << o.ev.size() << "/" << o.fhe.size() << "/" << o.chf.size() << "; ";
        if (ev != o.ev) d << "edge definitions; ";
        if (fhe != o.fhe) d << "face definitions; ";
        if (chf != o.chf) d << "cell definitions; ";
        if (pos != o.pos) { d << "positions"; for (size_t i = 0; i < std::min(pos.size(), o.pos.size()); ++i) if (pos[i] != o.pos[i]) { d << " (first at vertex " << i << ")"; break; } d << "; "; }
        if (with_props) {
            for (auto &kv : props) { auto it = o.props.find(kv.first); if (it == o.props.end()) { d << "property " << kv.first << " missing; "; continue; }
                if (kv.second.vals != it->second.vals) { d << "values of " << kv.first; for (size_t i = 0; i < std::min(kv.second.vals.size(), it->second.vals.size()); ++i) if (kv.second.vals[i] != it->second.vals[i]) { d << " (element " << i << ": " << kv.second.vals[i] << " vs " << it->second.vals[i] << ")"; break; }
                    if (kv.second.vals.size() != it->second.vals.size()) d << " (sizes " << kv.second.vals.size() << " vs " << it->second.vals.size() << ")"; d << "; "; }
                if (with_def && kv.second.has_def && it->second.has_def && kv.second.def != it->second.def) d << "default of " << kv.first << " (" << kv.second.def << " vs " << it->second.def << "); "; }
            for (auto &kv : o.props) if (!props.count(kv.first)) d << "extra property " << kv.first << "; ";
        }
        return d.str();
    }
};
// kind numbering of OVMB's PropertyEntity: V0 E1 F2 C3 HE4 HF5 M6; ours (PKind): V0 E1 HE2 F3 HF4 C5 M6
inline int pk_to_ovmb(int pk) { static const int m[] = {0, 1, 4, 2, 5, 3, 6}; return m[pk]; }

template <class T> const char *io_type_name(bool ascii) { return ascii ? IoVal<T>::ascii() : IoVal<T>::ovmb(); }

template <class M> Canon extract_canon(const M &m, bool ascii_names) {
    Canon c; Scan s; s.build(m);
    for (int v = 0; v < s.nv; ++v) { const auto &p = m.vertex(VertexHandle(v)); c.pos.push_back(led(p[0]) + led(p[1]) + led(p[2])); }
    c.ev = s.ev; c.fhe = s.fhe; c.chf = s.chf;
    int k = 0;
    ovm::for_each_entity([&](auto tag) {
        using ET = decltype(tag);
        for (auto it = m.template persistent_props_begin<ET>(); it != m.template persistent_props_end<ET>(); ++it) {
            ovm::PropertyStorageBase *b = *it;
            bool done = false;
#define TRY(T) if (!done && b->internal_type_name() == ovm::detail::internal_type_name<T>()) { const char *tn = io_type_name<T>(ascii_names); auto *st = b->template cast_to_StorageT<T>(); \
                CanonProp cp; cp.kind = pk_to_ovmb(k); cp.name = b->name(); cp.type = tn ? tn : std::string("?") + ovm::detail::internal_type_name<T>(); cp.def = IoVal<T>::enc(st->def()); \
                for (size_t i = 0; i < st->size(); ++i) { T val = (*st)[i]; cp.vals.push_back(IoVal<T>::enc(val)); } c.props[Canon::key(cp.kind, cp.name, cp.type)] = cp; done = true; }
            IO_TYPES(TRY)
#undef TRY
            if (!done) { CanonProp cp; cp.kind = pk_to_ovmb(k); cp.name = b->name(); cp.type = "?" + b->internal_type_name(); c.props[Canon::key(cp.kind, cp.name, cp.type)] = cp; }
        }
        ++k;
    });
    return c;
}

// ---- persistent properties with random content on a mesh
template <class M, class T, class ET> void add_io_prop(M &m, Rng &rng, const std::string &name, bool ascii) {
    T def = IoVal<T>::make(rng, ascii);   // (VectorT's default constructor leaves the components uninitialised)
    auto o = m.template create_persistent_property<T, ET>(name, def);
    if (!o) return;
    auto p = *o;
    using H = ovm::HandleT<ET>;
    for (size_t i = 0; i < p.size(); ++i) if (!rng.chance(1, 5)) p[H((int)i)] = IoVal<T>::make(rng, ascii);
}
template <class M, class ET> void add_io_prop_t(M &m, Rng &rng, int type, const std::string &name, bool ascii) {
    int i = 0;
#define ADD(T) if (i++ == type) { if ((ascii ? IoVal<T>::ascii() : IoVal<T>::ovmb()) != nullptr) add_io_prop<M, T, ET>(m, rng, name, ascii); return; }
    IO_TYPES(ADD)
#undef ADD
}
template <class M> void add_io_props(M &m, Ctx &ctx, int nprops, bool ascii) {
    Rng &rng = ctx.rng;
    static const char *names[] = {"a", "prop with spaces", "x:y", "p", "q", "long_property_name_0123456789"};
    for (int i = 0; i < nprops; ++i) {
        int kind = (int)rng.below(7), type = (int)rng.below(IO_NTYPES);
        std::string name = std::string(names[rng.below(6)]) + std::to_string(i);
        switch (kind) {
        case 0: add_io_prop_t<M, ovm::Entity::Vertex>(m, rng, type, name, ascii); break; case 1: add_io_prop_t<M, ovm::Entity::Edge>(m, rng, type, name, ascii); break;
        case 2: add_io_prop_t<M, ovm::Entity::HalfEdge>(m, rng, type, name, ascii); break; case 3: add_io_prop_t<M, ovm::Entity::Face>(m, rng, type, name, ascii); break;
        case 4: add_io_prop_t<M, ovm::Entity::HalfFace>(m, rng, type, name, ascii); break; case 5: add_io_prop_t<M, ovm::Entity::Cell>(m, rng, type, name, ascii); break;
        default: add_io_prop_t<M, ovm::Entity::Mesh>(m, rng, type, name, ascii); break;
        }
    }
}

// ---- mesh for files: engine history, garbage collected, random positions, persistent properties
template <class K> std::unique_ptr<XMesh<K>> make_io_mesh(Ctx &ctx, int nprops, bool ascii, bool keep_pending = false, int build = 12, int steps = 8) {
    EngCfg g; g.chk_model = false; g.build_steps = build; g.steps = steps; g.allow_clear = false; g.init_mode = keep_pending ? 1 : -1; g.allow_modes = !keep_pending; g.allow_gc = !keep_pending;
    if (keep_pending) g.w_del = 20;
    Engine<K> e(ctx, g);
    e.run();
    if (!keep_pending) { e.mesh.enable_deferred_deletion(true); e.mesh.collect_garbage(); }
    auto m = std::make_unique<XMesh<K>>();
    *m = e.mesh;    // plain copy: tag properties (non-persistent) are not carried over
    Rng &rng = ctx.rng;
    for (int v = 0; v < (int)m->n_vertices(); ++v) m->set_vertex(VertexHandle(v), ascii ? Vec3d((int)rng.below(2000) / 8.0 - 100, (int)rng.below(100000) / 1000.0, rng.chance(1, 4) ? 0.0 : (double)rng.below(7))
                                                                                  : Vec3d(IoVal<double>::make(rng, false), IoVal<double>::make(rng, false), IoVal<double>::make(rng, false)));
    add_io_props(*m, ctx, nprops, ascii);
    return m;
}

inline std::string write_ovmb_bytes(const std::function<ovm::IO::WriteResult(std::ostream &)> &w, ovm::IO::WriteResult &res) {
    std::ostringstream os(std::ios::binary); res = w(os); return os.str();
}

} // namespace vf
