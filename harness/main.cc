// Entry point of the monitor binary: `mon <ID> --seed S --from a --to b [--stride k] [--tier t] [--sub name]`
// plus `mon control <kind>` (deliberate defects proving that the instrumentation of this flavor is alive).
#include "common.hh"
#include <new>
#include <vector>
#include <thread>
#include <atomic>
#include <cassert>

namespace vf {
using Factory = CaseFn (*)(const Args &);
std::map<std::string, Factory> &registry() { static std::map<std::string, Factory> r; return r; }
}

// ---- capped operator new: gcc's ASan aborts on an impossible allocation instead of throwing
// std::bad_alloc; "declared size cannot be allocated -> standard exception" is allowed by C07.
static size_t g_new_cap = (size_t)256 << 20;
void *operator new(size_t n) { if (n > g_new_cap) throw std::bad_alloc(); void *p = malloc(n ? n : 1); if (!p) throw std::bad_alloc(); return p; }
void *operator new[](size_t n) { if (n > g_new_cap) throw std::bad_alloc(); void *p = malloc(n ? n : 1); if (!p) throw std::bad_alloc(); return p; }
void operator delete(void *p) noexcept { free(p); }
void operator delete[](void *p) noexcept { free(p); }
void operator delete(void *p, size_t) noexcept { free(p); }
void operator delete[](void *p, size_t) noexcept { free(p); }

static int g_counter; // unsynchronised on purpose (tsan control)
static int control(const std::string &k) {
    if (k == "asan") { std::vector<int> *v = new std::vector<int>(4); int *p = v->data(); volatile int x = p[6 + (int)(g_counter)]; (void)x; printf("control: no report\n"); return 0; }
    if (k == "ubsan") { volatile int s = 31 + g_counter; volatile int x = 7; volatile int y = x << (s + 2); (void)y; volatile int m = 0x7fffffff; volatile int z = m + 1 + g_counter; (void)z; printf("control: no report\n"); return 0; }
    if (k == "glibcxx") { std::vector<int> v(3); v.reserve(16); volatile size_t i = 5; volatile int x = v[i]; (void)x; printf("control: no report\n"); return 0; }
    if (k == "assert") {
#ifdef NDEBUG
        printf("control: NDEBUG\n"); return 0;
#else
        volatile int zero = 0; assert(zero == 1 && "control"); printf("control: no report\n"); return 0;
#endif
    }
    if (k == "tsan") {
        std::thread a([] { for (int i = 0; i < 100000; ++i) g_counter++; });
        std::thread b([] { for (int i = 0; i < 100000; ++i) g_counter++; });
        a.join(); b.join(); printf("control: done %d\n", g_counter); return 0;
    }
    if (k == "ok") { printf("control: ok\n"); return 0; }
    return 2;
}

int main(int argc, char **argv) {
    setvbuf(stdout, nullptr, _IOLBF, 0);
    if (argc >= 3 && std::string(argv[1]) == "control") return control(argv[2]);
    vf::Args a = vf::parse_args(argc, argv);
    if (a.prop == "list") { for (auto &kv : vf::registry()) printf("%s\n", kv.first.c_str()); return 0; }
    std::string key = a.prop + (a.sub.empty() ? "" : ":" + a.sub);
    auto it = vf::registry().find(key);
    if (it == vf::registry().end()) { fprintf(stderr, "unknown monitor %s\n", key.c_str()); return 2; }
    vf::CaseFn fn = it->second(a);
    int nf = vf::run_cases(a.prop, a.tier, a.seed, a.from, a.to, a.stride, a.verbose, fn);
    printf("DONE %d\n", nf);
    return 0;
}
