// Mesh wrapper giving the monitors read access to the protected incidence caches and the
// property trackers, and the brute-force "Scan" of the stored top-down definitions.
#pragma once
#include "common.hh"
#include <OpenVolumeMesh/Mesh/PolyhedralMesh.hh>
#include <OpenVolumeMesh/Mesh/TetrahedralMesh.hh>
#include <OpenVolumeMesh/Mesh/HexahedralMesh.hh>
#include <array>

namespace vf {
namespace ovm = OpenVolumeMesh;
using ovm::VertexHandle; using ovm::EdgeHandle; using ovm::HalfEdgeHandle;
using ovm::FaceHandle; using ovm::HalfFaceHandle; using ovm::CellHandle;
using Vec3d = ovm::Geometry::Vec3d;
using PolyK = ovm::TopologyKernel;
using TetK = ovm::TetrahedralMeshTopologyKernel;
using HexK = ovm::HexahedralMeshTopologyKernel;

template <class K> struct KernelName;
template <> struct KernelName<PolyK> { static const char *name() { return "poly"; } static constexpr int kind = 0; };
template <> struct KernelName<TetK> { static const char *name() { return "tet"; } static constexpr int kind = 1; };
template <> struct KernelName<HexK> { static const char *name() { return "hex"; } static constexpr int kind = 2; };

template <class K>
struct XMesh : ovm::GeometryKernel<Vec3d, K> {
    using Base = ovm::GeometryKernel<Vec3d, K>;
    XMesh() = default;
    XMesh(const XMesh &o) = default;
    XMesh &operator=(const XMesh &o) { Base::operator=(static_cast<const Base &>(o)); return *this; }
    const std::vector<std::vector<HalfEdgeHandle>> &cache_v() const { return this->outgoing_hes_per_vertex_; }
    const std::vector<std::vector<HalfFaceHandle>> &cache_e() const { return this->incident_hfs_per_he_; }
    const std::vector<CellHandle> &cache_f() const { return this->incident_cell_per_hf_; }
    template <class ET> size_t n_tracked() const { return this->template storage_tracker<ET>().size(); }
    // sizes of ALL tracked property storages (not only persistent ones) vs the entity counts; "" if consistent
    std::string prop_size_mismatch() const {
        std::string r;
        ovm::for_each_entity([&](auto tag) { using ET = decltype(tag);
            for (auto *p : this->template storage_tracker<ET>()) if (p->size() != this->template n<ET>()) r += "property '" + p->name() + "' has " + std::to_string(p->size()) + " elements for " + std::to_string(this->template n<ET>()) + " entities; "; });
        return r;
    }
    // expose the tet-kernel's protected split operations
    template <class H> void x_split_edge(H h, VertexHandle v) { this->split_edge(h, v); }
    template <class H> void x_split_face(H f, VertexHandle v) { this->split_face(f, v); }
};

inline int heh(int e, int s) { return 2 * e + s; }

// ------------------------------------------------------------------------------------------
// Scan: everything derivable from edge()/face()/cell()/is_deleted()/n_*() by naive loops.
// Handles are plain ints here. Only live (not deleted) entities take part in relations.
struct Scan {
    int nv = 0, ne = 0, nf = 0, nc = 0;
    std::vector<char> vdel, edel, fdel, cdel;
    std::vector<std::array<int, 2>> ev;  // edge -> from,to
    std::vector<std::vector<int>> fhe;   // face -> halfedges of side 0
    std::vector<std::vector<int>> chf;   // cell -> halffaces
    std::vector<std::vector<int>> out_he;   // vertex -> halfedges of live edges starting there (multiset)
    std::vector<std::vector<int>> he_hf;    // halfedge -> halffaces of live faces containing it (multiset)
    std::vector<std::vector<int>> hf_cells; // halfface -> live cells containing it
    bool wellformed = true;  // every referenced sub-entity is in range and live

    int from(int h) const { return ev[h >> 1][h & 1]; }
    int to(int h) const { return ev[h >> 1][1 - (h & 1)]; }
    std::vector<int> hf_hes(int hf) const {
        const auto &l = fhe[hf >> 1];
        if ((hf & 1) == 0) return l;
        std::vector<int> r(l.rbegin(), l.rend());
        for (auto &x : r) x ^= 1;
        return r;
    }
    std::vector<int> hf_verts(int hf) const {  // from-vertices along the halfface's cycle
        std::vector<int> r;
        for (int h : hf_hes(hf)) r.push_back(from(h));
        return r;
    }
    int cell_of(int hf) const { return hf_cells[hf].empty() ? -1 : hf_cells[hf][0]; }
    bool hf_boundary(int hf) const { return hf_cells[hf].empty(); }
    bool f_boundary(int f) const { return hf_boundary(2 * f) || hf_boundary(2 * f + 1); }
    bool he_boundary(int h) const {
        for (int hf : he_hf[h]) if (f_boundary(hf >> 1)) return true;
        return false;
    }
    bool v_boundary(int v) const {
        for (int h : out_he[v]) if (he_boundary(h)) return true;
        return false;
    }
    bool c_boundary(int c) const {
        for (int hf : chf[c]) if (f_boundary(hf >> 1)) return true;
        return false;
    }
    std::vector<int> live(int kind) const {
        const std::vector<char> &d = kind == 0 ? vdel : kind == 1 ? edel : kind == 2 ? fdel : cdel;
        std::vector<int> r;
        for (int i = 0; i < (int)d.size(); ++i) if (!d[i]) r.push_back(i);
        return r;
    }
    bool multi_cell_hf = false;  // some halfface is used by two live cells (excluded by the properties)

    template <class M> void build(const M &m) {
        nv = (int)m.n_vertices(); ne = (int)m.n_edges(); nf = (int)m.n_faces(); nc = (int)m.n_cells();
        vdel.assign(nv, 0); edel.assign(ne, 0); fdel.assign(nf, 0); cdel.assign(nc, 0);
        for (int i = 0; i < nv; ++i) vdel[i] = m.is_deleted(VertexHandle(i));
        for (int i = 0; i < ne; ++i) edel[i] = m.is_deleted(EdgeHandle(i));
        for (int i = 0; i < nf; ++i) fdel[i] = m.is_deleted(FaceHandle(i));
        for (int i = 0; i < nc; ++i) cdel[i] = m.is_deleted(CellHandle(i));
        ev.assign(ne, {-1, -1}); fhe.assign(nf, {}); chf.assign(nc, {});
        out_he.assign(nv, {}); he_hf.assign(2 * ne, {}); hf_cells.assign(2 * nf, {});
        wellformed = true; multi_cell_hf = false;
        for (int e = 0; e < ne; ++e) {
            const auto &ed = m.edge(EdgeHandle(e));
            ev[e] = {ed.from_vertex().idx(), ed.to_vertex().idx()};
            if (edel[e]) continue;
            for (int s = 0; s < 2; ++s) {
                int v = ev[e][s];
                if (v < 0 || v >= nv || vdel[v]) { wellformed = false; continue; }
                out_he[v].push_back(2 * e + s);
            }
        }
        for (int f = 0; f < nf; ++f) {
            for (auto h : m.face(FaceHandle(f)).halfedges()) fhe[f].push_back(h.idx());
            if (fdel[f]) continue;
            for (int h : fhe[f]) {
                if (h < 0 || h >= 2 * ne || edel[h >> 1]) { wellformed = false; continue; }
                he_hf[h].push_back(2 * f);
                he_hf[h ^ 1].push_back(2 * f + 1);
            }
        }
        for (int c = 0; c < nc; ++c) {
            for (auto h : m.cell(CellHandle(c)).halffaces()) chf[c].push_back(h.idx());
            if (cdel[c]) continue;
            for (int hf : chf[c]) {
                if (hf < 0 || hf >= 2 * nf || fdel[hf >> 1]) { wellformed = false; continue; }
                if (!hf_cells[hf].empty()) multi_cell_hf = true;
                hf_cells[hf].push_back(c);
            }
        }
    }
};

template <class T> std::vector<int> sorted(std::vector<T> v) { std::sort(v.begin(), v.end()); return v; }
inline std::vector<int> uniq(std::vector<int> v) {
    std::sort(v.begin(), v.end()); v.erase(std::unique(v.begin(), v.end()), v.end()); return v;
}
template <class Range> std::vector<int> collect(Range r) {
    std::vector<int> out; int guard = 0;
    for (auto it = r.first; it != r.second; ++it) { out.push_back((*it).idx()); if (++guard > 100000) break; }
    return out;
}
template <class It> std::vector<int> collect_valid(It it) {
    std::vector<int> out; int guard = 0;
    for (; it.valid(); ++it) { out.push_back((*it).idx()); if (++guard > 100000) break; }
    return out;
}

} // namespace vf
