// Id-labelled reference model (shape (b) of DESIGN.md): entities carry stable ids; the model
// is updated by the *specified* effect of each operation, never by OVM's renumbering rules.
#pragma once
#include "meshwrap.hh"
#include <memory>
#include <cmath>
#include <OpenVolumeMesh/Attribs/OpenVolumeMeshStatus.hh>

namespace vf {

struct Model {
    struct Ed { int a, b; bool live; };
    struct Fa { std::vector<int> hes; bool live; };   // halfedge ids: 2*eid+side
    struct Ce { std::vector<int> hfs; bool live; };   // halfface ids: 2*fid+side
    std::vector<char> v;
    std::vector<Ed> e;
    std::vector<Fa> f;
    std::vector<Ce> c;
    int pending[4] = {0, 0, 0, 0};   // dead but still occupying a slot (deferred deletion)

    int add_v() { v.push_back(1); return (int)v.size() - 1; }
    int add_e(int a, int b) { e.push_back({a, b, true}); return (int)e.size() - 1; }
    int add_f(std::vector<int> hes) { f.push_back({std::move(hes), true}); return (int)f.size() - 1; }
    int add_c(std::vector<int> hfs) { c.push_back({std::move(hfs), true}); return (int)c.size() - 1; }
    int live(int kind) const {
        int n = 0;
        if (kind == 0) for (auto x : v) n += x;
        if (kind == 1) for (auto &x : e) n += x.live;
        if (kind == 2) for (auto &x : f) n += x.live;
        if (kind == 3) for (auto &x : c) n += x.live;
        return n;
    }
    // deletion = upward closure, computed in id space from the model's own definitions
    void del_c(int id, bool deferred) { if (!c[id].live) return; c[id].live = false; pending[3] += deferred; }
    void del_f(int id, bool deferred) {
        if (!f[id].live) return;
        for (int i = 0; i < (int)c.size(); ++i) if (c[i].live)
            for (int hf : c[i].hfs) if ((hf >> 1) == id) { del_c(i, deferred); break; }
        f[id].live = false; pending[2] += deferred;
    }
    void del_e(int id, bool deferred) {
        if (!e[id].live) return;
        for (int i = 0; i < (int)f.size(); ++i) if (f[i].live)
            for (int h : f[i].hes) if ((h >> 1) == id) { del_f(i, deferred); break; }
        e[id].live = false; pending[1] += deferred;
    }
    void del_v(int id, bool deferred) {
        if (!v[id]) return;
        for (int i = 0; i < (int)e.size(); ++i) if (e[i].live && (e[i].a == id || e[i].b == id)) del_e(i, deferred);
        v[id] = 0; pending[0] += deferred;
    }
    void gc() { for (auto &p : pending) p = 0; }
    void clear() { v.clear(); e.clear(); f.clear(); c.clear(); gc(); }
    bool any_pending() const { return pending[0] || pending[1] || pending[2] || pending[3]; }
};

// ---------------------------------------------------------------- type-erased user properties
template <class T> struct Val;
template <> struct Val<int> {
    static int make(Rng &r) { return (int)r.below(2000001) - 1000000; }
    static std::string repr(int v) { return std::to_string(v); }
    static const char *name() { return "int"; }
};
template <> struct Val<bool> {
    static bool make(Rng &r) { return r.chance(1, 2); }
    static std::string repr(bool v) { return v ? "1" : "0"; }
    static const char *name() { return "bool"; }
};
template <> struct Val<char> {
    static char make(Rng &r) { return (char)r.below(256); }
    static std::string repr(char v) { return std::to_string((int)v); }
    static const char *name() { return "char"; }
};
template <> struct Val<double> {
    static double make(Rng &r) { return (r.unit() - 0.5) * std::ldexp(1.0, (int)r.below(40) - 20); }
    static std::string repr(double v) { char b[64]; snprintf(b, sizeof b, "%a", v); return b; }
    static const char *name() { return "double"; }
};
template <> struct Val<std::string> {
    static std::string make(Rng &r) {
        std::string s; int n = (int)r.below(40);
        for (int i = 0; i < n; ++i) s += (char)('a' + r.below(26));
        return s;
    }
    static std::string repr(const std::string &v) { return "s:" + v; }
    static const char *name() { return "string"; }
};
template <> struct Val<Vec3d> {
    static Vec3d make(Rng &r) { return Vec3d(Val<double>::make(r), Val<double>::make(r), Val<double>::make(r)); }
    static std::string repr(const Vec3d &v) { return Val<double>::repr(v[0]) + "," + Val<double>::repr(v[1]) + "," + Val<double>::repr(v[2]); }
    static const char *name() { return "vec3d"; }
};
template <> struct Val<VertexHandle> {
    static VertexHandle make(Rng &r) { return VertexHandle((int)r.below(1000) - 1); }
    static std::string repr(VertexHandle v) { return "vh" + std::to_string(v.idx()); }
    static const char *name() { return "vh"; }
};

template <> struct Val<ovm::OpenVolumeMeshStatus> {
    using S = ovm::OpenVolumeMeshStatus;
    static S make(Rng &r) { S s; s.set_selected(r.chance(1, 2)); s.set_tagged(r.chance(1, 2)); s.set_hidden(r.chance(1, 2)); return s; }   // the deleted bit drives garbage collection: not touched
    static std::string repr(const S &s) { return std::string(s.selected() ? "S" : "s") + (s.tagged() ? "T" : "t") + (s.deleted() ? "D" : "d") + (s.hidden() ? "H" : "h"); }
    static const char *name() { return "status"; }
};

// entity kinds for properties: 0 V, 1 E, 2 HE, 3 F, 4 HF, 5 C, 6 M
template <class ET> struct PKind;
template <> struct PKind<ovm::Entity::Vertex>   { static constexpr int k = 0; };
template <> struct PKind<ovm::Entity::Edge>     { static constexpr int k = 1; };
template <> struct PKind<ovm::Entity::HalfEdge> { static constexpr int k = 2; };
template <> struct PKind<ovm::Entity::Face>     { static constexpr int k = 3; };
template <> struct PKind<ovm::Entity::HalfFace> { static constexpr int k = 4; };
template <> struct PKind<ovm::Entity::Cell>     { static constexpr int k = 5; };
template <> struct PKind<ovm::Entity::Mesh>     { static constexpr int k = 6; };
inline const char *pkind_name(int k) { static const char *n[] = {"V", "E", "HE", "F", "HF", "C", "M"}; return n[k]; }

struct IProp {
    int kind = 0;
    std::string label;   // kind/type/flavour for logs
    std::string name; int flavour = 0;   // 0 shared, 1 private, 2 persistent
    virtual bool findable_in(ovm::ResourceManager &rm) const = 0;        // get_property(name) with this type/kind succeeds
    virtual bool same_storage_as_found(ovm::ResourceManager &rm, Rng &r) = 0; // write-through test against the property found by name
    std::map<long long, std::string> shadow;   // id (or 2*id+side; 0 for mesh) -> repr
    virtual ~IProp() = default;
    virtual size_t size() const = 0;
    virtual std::string get(int idx) const = 0;
    virtual std::string get_at(int idx) const = 0;   // via at()
    virtual std::string set_random(int idx, Rng &r) = 0;
    virtual std::string def() const = 0;
    virtual bool attached() const = 0;
    virtual std::string iter_get(int idx) const = 0; // via begin()+idx
    // rename + set_shared + set_persistent on the given mesh ("" on success, otherwise what was thrown)
    bool republished = false;
    virtual std::string republish(ovm::ResourceManager &, const std::string &) { return "unsupported"; }
    // the property of this name/type/kind in another mesh: -1 not found, 0 different values, 1 equal
    virtual int equal_in(ovm::ResourceManager &) const { return -2; }
    // def() of the property of this name/type/kind in another mesh ("?" if there is none)
    virtual std::string def_in(ovm::ResourceManager &) const { return "?"; }
};

template <class T, class ET>
struct PropT : IProp {
    ovm::PropertyPtr<T, ET> p;
    using H = ovm::HandleT<ET>;
    explicit PropT(ovm::PropertyPtr<T, ET> pp, const std::string &lab) : p(std::move(pp)) { kind = PKind<ET>::k; label = lab; }
    size_t size() const override { return p.size(); }
    std::string get(int idx) const override { return Val<T>::repr(p[H(idx)]); }
    std::string get_at(int idx) const override { return Val<T>::repr(p.at(H(idx))); }
    std::string iter_get(int idx) const override { return Val<T>::repr(*(p.begin() + idx)); }
    std::string set_random(int idx, Rng &r) override { T v = Val<T>::make(r); p[H(idx)] = v; return Val<T>::repr(v); }
    std::string def() const override { return Val<T>::repr(p.def()); }
    bool attached() const override { return (bool)p; }
    bool findable_in(ovm::ResourceManager &rm) const override { return rm.template property_exists<T, ET>(name) && rm.template get_property<T, ET>(name).has_value(); }
    bool same_storage_as_found(ovm::ResourceManager &rm, Rng &r) override {
        auto o = rm.template get_property<T, ET>(name);
        if (!o || p.size() == 0 || o->size() == 0) return false;
        T old = p[H(0)];
        T v = Val<T>::make(r); for (int i = 0; i < 64 && Val<T>::repr(v) == Val<T>::repr((*o)[H(0)]); ++i) v = Val<T>::make(r);   // (bool: 64 tries, a value that differs is found with certainty for all practical purposes)
        p[H(0)] = v;
        bool same = Val<T>::repr((*o)[H(0)]) == Val<T>::repr(v);
        p[H(0)] = old;
        return same;
    }
    std::string republish(ovm::ResourceManager &rm, const std::string &nn) override {
        try { p.set_name(nn); rm.set_shared(p, true); rm.set_persistent(p, true); } catch (const std::exception &e) { return std::string("threw ") + e.what(); }
        name = nn; flavour = 2; republished = true; return "";
    }
    std::string def_in(ovm::ResourceManager &other) const override { auto o = other.template get_property<T, ET>(name); return o ? Val<T>::repr(o->def()) : std::string("?"); }
    int equal_in(ovm::ResourceManager &other) const override {
        auto o = other.template get_property<T, ET>(name);
        if (!o) return -1;
        if (o->size() != p.size()) return 0;
        for (size_t i = 0; i < p.size(); ++i) if (Val<T>::repr((*o)[H((int)i)]) != Val<T>::repr(p[H((int)i)])) return 0;
        return 1;
    }
};

// a property reached only through the accessor of an attribute class (ColorAttrib, StatusAttrib, ...)
template <class A, class HT, class T, int PK>
struct AttribProp : IProp {
    std::shared_ptr<A> a; std::string defrepr;
    AttribProp(std::shared_ptr<A> at, const std::string &lab, const std::string &dr) : a(std::move(at)), defrepr(dr) { kind = PK; label = lab; }
    size_t size() const override { return (size_t)-1; }   // attribute classes do not expose the size of their arrays
    std::string get(int idx) const override { const A &c = *a; T v = c[HT(idx)]; return Val<T>::repr(v); }
    std::string get_at(int idx) const override { return get(idx); }
    std::string iter_get(int idx) const override { return get(idx); }
    std::string set_random(int idx, Rng &r) override { T v = Val<T>::make(r); (*a)[HT(idx)] = v; return Val<T>::repr(v); }
    std::string def() const override { return defrepr; }
    bool attached() const override { return true; }
    bool findable_in(ovm::ResourceManager &) const override { return false; }
    bool same_storage_as_found(ovm::ResourceManager &, Rng &) override { return false; }
};

} // namespace vf
