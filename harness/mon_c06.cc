// C06: native file formats round-trip meshes and persistent properties.
#include "registry.hh"
#include "ovmb_ref.hh"
#include <fstream>
#include <unistd.h>

namespace vf {
namespace IO = ovm::IO;

static std::string &last_read_error() { static std::string e; return e; }
template <class M> static bool read_ovmb(const std::string &bytes, M &m, bool check, bool bu, IO::ReadResult *res = nullptr) {
    std::istringstream is(bytes, std::ios::binary);
    IO::ReadOptions o; o.topology_check = check; o.bottom_up_incidences = bu;
    auto reader = IO::make_ovmb_reader(is, o, IO::g_default_property_codecs);
    auto r = reader->read_file(m);
    if (res) *res = r;
    last_read_error() = reader->get_error_msg();
    return r == IO::ReadResult::Ok;
}
static std::string first_text_diff(const std::string &a, const std::string &b) {
    std::istringstream x(a), y(b); std::string la, lb; int n = 0;
    while (true) { bool ga = (bool)std::getline(x, la), gb = (bool)std::getline(y, lb); ++n; if (!ga && !gb) return "identical"; if (ga != gb || la != lb) return "line " + std::to_string(n) + ": '" + (ga ? la : "<eof>") + "' vs '" + (gb ? lb : "<eof>") + "'"; }
}
// a mesh passes the topology check iff every face is a closed loop and every cell a closed surface (brute force)
static bool passes_topology_check(const Canon &c) {
    auto from = [&](int h) { return c.ev[h >> 1][h & 1]; }; auto to = [&](int h) { return c.ev[h >> 1][1 - (h & 1)]; };
    for (auto &f : c.fhe) { if (f.empty()) return false; for (size_t i = 0; i < f.size(); ++i) if (to(f[i]) != from(f[(i + 1) % f.size()])) return false; }
    for (auto &cell : c.chf) { if (cell.empty()) return false; std::map<int, int> cnt;
        for (int hf : cell) { auto l = c.fhe[hf >> 1]; if (hf & 1) { std::reverse(l.begin(), l.end()); for (auto &x : l) x ^= 1; } for (int h : l) cnt[h]++; }
        for (auto &kv : cnt) { if (kv.second != 1) return false; auto o = cnt.find(kv.first ^ 1); if (o == cnt.end() || o->second != 1) return false; } }
    return true;
}
static int kernel_of(const Canon &c) {   // what detect_topology_type must say for a polyhedral container
    if (c.chf.empty()) return 0;
    bool tet = true, hex = true;
    for (auto &f : c.fhe) { tet &= f.size() == 3; hex &= f.size() == 4; }
    for (auto &x : c.chf) { tet &= x.size() == 4; hex &= x.size() == 6; }
    return tet ? 1 : hex ? 2 : 0;
}

template <class K> static void ovmb_case(Ctx &ctx, int nvariants) {
    Rng &rng = ctx.rng;
    int build = ctx.case_no % 23 == 0 ? 0 : 12; int steps = ctx.case_no % 23 == 0 ? 0 : 8;   // empty meshes now and then
    auto m = make_io_mesh<K>(ctx, 2 + (int)rng.below(8), false, false, build, steps);
    Canon cm = extract_canon(*m, false);
    IO::WriteResult wr;
    std::string bytes = write_ovmb_bytes([&](std::ostream &os) { return IO::ovmb_write(os, *m); }, wr);
    ctx.op("ovmb_write(" + std::string(KernelName<K>::name()) + " mesh " + std::to_string(cm.pos.size()) + "/" + std::to_string(cm.ev.size()) + "/" + std::to_string(cm.fhe.size()) + "/" + std::to_string(cm.chf.size()) + ", " + std::to_string(cm.props.size()) + " persistent props) -> " + std::to_string(bytes.size()) + " bytes");
    VF_CHECK(wr == IO::WriteResult::Ok, "oracle:ovmb.write-failed", "writing a mesh without pending deletions failed: " << IO::to_string(wr));
    ctx.cnt.add("ovmb.files"); ctx.cnt.add("ovmb.bytes", (long long)bytes.size()); ctx.cnt.add("ovmb.props", (long long)cm.props.size());
    for (auto &kv : cm.props) ctx.cls("codec:" + kv.second.type), ctx.cls("prop-kind:" + std::to_string(kv.second.kind));
    // (1) the writer's bytes decode under the published format description to the same mesh
    Canon cr; std::string err;
    bool ok = ref_to_canon(bytes, cr, err);
    VF_CHECK(ok, "oracle:ovmb.writer-violates-format", "independent decoder rejects the writer's output: " << err);
    cm.topo_type = cr.topo_type;
    { std::string d = cm.diff(cr); VF_CHECK(d.empty(), "oracle:ovmb.writer-bytes-differ", "independent decoding of the written file differs from the mesh: " << d); }
    int expect_topo = KernelName<K>::kind ? KernelName<K>::kind : kernel_of(cm);
    VF_CHECK(cr.topo_type == expect_topo, "oracle:ovmb.topo-type", "file header says topo type " << cr.topo_type << " expected " << expect_topo);
    { std::istringstream is(bytes, std::ios::binary); IO::detail::BinaryFileReader rd(is, IO::ReadOptions()); auto tt = rd.topo_type(); auto vd = rd.vertex_dim();
      VF_CHECK(tt && (int)*tt == expect_topo && vd && *vd == 3, "oracle:ovmb.reader-topo-type", "BinaryFileReader::topo_type()/vertex_dim() disagree with the mesh"); }
    bool checkable = passes_topology_check(cm);
    ctx.cnt.add(checkable ? "ovmb.meshes-passing-topology-check" : "ovmb.meshes-failing-topology-check");
    // (2) library round trip into every compatible mesh type, check on (for meshes that pass) / off, incidences on / off
    auto round = [&](auto &target, const char *tname, const std::string &data, const std::string &what) {
        for (int opt = 0; opt < 4; ++opt) {
            bool check = opt & 1, bu = opt & 2;
            if (check && !checkable) continue;
            IO::ReadResult res;
            bool okr = read_ovmb(data, target, check, bu, &res);
            ctx.cnt.add("ovmb.reads");
            VF_CHECK(okr, "oracle:ovmb.read-rejected", what << " into " << tname << " (check=" << check << ",bu=" << bu << "): " << IO::to_string(res));
            Canon ct = extract_canon(target, false); ct.topo_type = cm.topo_type;
            std::string d = cm.diff(ct);
            VF_CHECK(d.empty(), "oracle:ovmb.roundtrip-differs", what << " into " << tname << " (check=" << check << ",bu=" << bu << ") differs: " << d);
            VF_CHECK(target.has_full_bottom_up_incidences() == bu || !bu, "oracle:ovmb.read-incidences", "bottom-up incidences not as requested");
            if (bu) { Scan s; s.build(target); check_incidences(target, s); }
            VF_CHECK(!target.needs_garbage_collection(), "oracle:ovmb.read-pending", "freshly read mesh needs garbage collection");
        } };
    XMesh<PolyK> tp; round(tp, "polyhedral mesh", bytes, "writer output");
    if (cr.topo_type == 1) { XMesh<TetK> tt; round(tt, "tetrahedral mesh", bytes, "writer output"); }
    if (cr.topo_type == 2) { XMesh<HexK> th; round(th, "hexahedral mesh", bytes, "writer output"); }
    // incompatible target types are refused
    if (cr.topo_type != 1) { XMesh<TetK> tt; VF_CHECK(!read_ovmb(bytes, tt, false, false), "oracle:ovmb.incompatible-accepted", "non-tetrahedral file read into a tetrahedral mesh"); }
    if (cr.topo_type != 2) { XMesh<HexK> th; VF_CHECK(!read_ovmb(bytes, th, false, false), "oracle:ovmb.incompatible-accepted", "non-hexahedral file read into a hexahedral mesh"); }
    // (3) every other permitted encoding of the same content reads to the same mesh
    for (int i = 0; i < nvariants; ++i) {
        RefVariant v; v.max_split = 1 + (int)rng.below(4); v.widen = (int)rng.below(3); v.float_pos = rng.chance(1, 3); v.force_variable_valence = rng.chance(1, 3);
        v.handle_offset = rng.chance(1, 3); v.junk_chunks = rng.chance(1, 3); v.order = (int)rng.below(3); v.odd_padding = rng.chance(1, 4);
        if (cm.topo_type != 0) v.force_variable_valence = false;   // tet/hex files: the reader demands the fixed valence, and the description does not say otherwise
        if (i == 0) { v = RefVariant(); }                 // canonical re-encoding first
        if (i == 1) { v = RefVariant(); v.max_split = 3; } // only spans
        if (i == 2) { v = RefVariant(); v.handle_offset = true; }
        std::string alt = ref_encode(cm, v, rng);
        Canon back; std::string e2;
        VF_CHECK(ref_to_canon(alt, back, e2) && cm.diff(back).empty(), "oracle:harness.ref-encoder", "reference encoder/decoder disagree (harness bug): " << e2 << cm.diff(back));
        ctx.cnt.add("ovmb.variants"); ctx.cls("variant:order" + std::to_string(v.order) + (v.max_split > 1 ? "+spans" : "") + (v.handle_offset ? "+offset" : "") + (v.junk_chunks ? "+junk" : "") + (v.widen ? "+wide" : ""));
        ctx.op("variant " + v.describe() + " -> " + std::to_string(alt.size()) + " bytes");
        XMesh<PolyK> t;
        IO::ReadResult res; bool okr = read_ovmb(alt, t, false, rng.chance(1, 2), &res);
        std::string vk = std::string(v.max_split > 1 ? "spans," : "") + (v.handle_offset ? "offset," : "") + (v.widen ? "wide," : "") + (v.junk_chunks ? "junk," : "") + (v.order ? "order," : "") + (v.float_pos ? "floatpos," : "") + (v.force_variable_valence ? "varvalence," : "") + (v.odd_padding ? "padding," : "");
        VF_CHECK(okr, "oracle:ovmb.variant-rejected", "a permitted encoding (" << v.describe() << ") was refused: " << IO::to_string(res) << " (" << last_read_error() << ") [" << vk << "]");
        Canon ct = extract_canon(t, false); ct.topo_type = cm.topo_type;
        std::string d = cm.diff(ct);
        VF_CHECK(d.empty(), "oracle:ovmb.variant-misread", "a permitted encoding (" << v.describe() << ") reads to a different mesh: " << d);
    }
}

template <class K> static void ascii_case(Ctx &ctx) {
    Rng &rng = ctx.rng;
    int build = ctx.case_no % 23 == 1 ? 0 : 12; int steps = ctx.case_no % 23 == 1 ? 0 : 8;
    auto m = make_io_mesh<K>(ctx, 2 + (int)rng.below(8), true, false, build, steps);
    Canon cm = extract_canon(*m, true);
    IO::FileManager fm; fm.setVerbosityLevel(0);
    std::ostringstream os; fm.writeStream(os, *m);
    std::string text = os.str();
    ctx.op("writeStream(" + std::string(KernelName<K>::name()) + " mesh, " + std::to_string(cm.props.size()) + " props) -> " + std::to_string(text.size()) + " bytes");
    VF_CHECK(os.good(), "oracle:ascii.write-failed", "stream not good after writing a mesh without pending deletions");
    ctx.cnt.add("ascii.files"); ctx.cnt.add("ascii.props", (long long)cm.props.size());
    for (auto &kv : cm.props) ctx.cls("asciitype:" + kv.second.type);
    bool checkable = passes_topology_check(cm);
    auto round = [&](auto &target, const char *tname) {
        for (int opt = 0; opt < 4; ++opt) {
            bool check = opt & 1, bu = opt & 2;
            if (check && !checkable) continue;
            std::istringstream is(text);
            bool okr = fm.readStream(is, target, check, bu);
            ctx.cnt.add("ascii.reads");
            VF_CHECK(okr, "oracle:ascii.read-rejected", "readStream into " << tname << " (check=" << check << ",bu=" << bu << ") failed");
            Canon ct = extract_canon(target, true);
            std::string d = cm.diff(ct, false);   // the text format stores no defaults
            VF_CHECK(d.empty(), "oracle:ascii.roundtrip-differs", "ASCII round trip into " << tname << " (check=" << check << ",bu=" << bu << ") differs: " << d);
            if (bu) { Scan s; s.build(target); check_incidences(target, s); }
            // a second round trip changes nothing
            // (the order of the property blocks depends on allocation addresses, so texts are compared through re-reading)
            std::ostringstream os2; fm.writeStream(os2, target);
            XMesh<PolyK> again; std::istringstream is2(os2.str());
            VF_CHECK(fm.readStream(is2, again, false, false), "oracle:ascii.second-roundtrip", "the re-written file cannot be read");
            std::string d2 = ct.diff(extract_canon(again, true), false);
            VF_CHECK(d2.empty() && os2.str().size() == text.size(), "oracle:ascii.second-roundtrip", "a second round trip changes the mesh: " << d2 << " (file sizes " << text.size() << " vs " << os2.str().size() << "; " << first_text_diff(text, os2.str()) << ")");
        } };
    XMesh<PolyK> tp; round(tp, "polyhedral mesh");
    int kind = KernelName<K>::kind ? KernelName<K>::kind : kernel_of(cm);
    if (kind == 1) { XMesh<TetK> tt; round(tt, "tetrahedral mesh"); }
    if (kind == 2) { XMesh<HexK> th; round(th, "hexahedral mesh"); }
    // automatic type detection works on files
    if (ctx.case_no % 4 == 0) {
        std::string path = std::string(getenv("VF_TMP") ? getenv("VF_TMP") : "/var/tmp") + "/vf_c06_" + std::to_string(getpid()) + ".ovm";
        { std::ofstream f(path); f << text; }
        bool ishex = fm.isHexahedralMesh(path), istet = fm.isTetrahedralMesh(path);
        // the detection looks at cell valences only
        bool all6 = !cm.chf.empty(), all4 = !cm.chf.empty(); for (auto &c : cm.chf) { all6 &= c.size() == 6; all4 &= c.size() == 4; }
        XMesh<PolyK> viafile; bool rf = IO::read_file(path, viafile, false, true);
        unlink(path.c_str());
        ctx.cnt.add("ascii.type-detections");
        VF_CHECK(ishex == all6 && istet == all4, "oracle:ascii.type-detection", "isHexahedralMesh=" << ishex << " isTetrahedralMesh=" << istet << " but cell valences say hex=" << all6 << " tet=" << all4);
        VF_CHECK(rf && cm.diff(extract_canon(viafile, true), false).empty(), "oracle:ascii.read_file", "IO::read_file(.ovm) differs from the written mesh");
    }
    // arbitrary doubles: read back to printed precision, then stable
    if (m->n_vertices() > 0 && ctx.case_no % 3 == 0) {
        XMesh<K> a; a = *m;
        for (int v = 0; v < (int)a.n_vertices(); ++v) a.set_vertex(VertexHandle(v), Vec3d(IoVal<double>::make(rng, false) * 1e3, rng.unit(), -rng.unit() * 1e-3));
        for (int v = 0; v < (int)a.n_vertices(); ++v) { auto p = a.vertex(VertexHandle(v)); for (int i = 0; i < 3; ++i) if (!std::isfinite(p[i]) || (p[i] != 0 && std::fabs(p[i]) < 1e-300)) p[i] = 1.5; /* iostreams cannot read denormals back */ a.set_vertex(VertexHandle(v), p); }
        std::ostringstream o1; fm.writeStream(o1, a);
        XMesh<PolyK> b; std::istringstream i1(o1.str()); VF_CHECK(fm.readStream(i1, b, false, false), "oracle:ascii.read-rejected", "arbitrary positions");
        for (int v = 0; v < (int)a.n_vertices(); ++v) for (int i = 0; i < 3; ++i) { double x = a.vertex(VertexHandle(v))[i], y = b.vertex(VertexHandle(v))[i];
            VF_CHECK(std::fabs(x - y) <= 1e-5 * std::fabs(x) + 1e-300, "oracle:ascii.precision", "coordinate " << x << " read back as " << y); }
        std::ostringstream o2; fm.writeStream(o2, b);
        XMesh<PolyK> b2; std::istringstream i2(o2.str()); VF_CHECK(fm.readStream(i2, b2, false, false), "oracle:ascii.second-roundtrip", "arbitrary positions: re-written file unreadable");
        for (int v = 0; v < (int)b.n_vertices(); ++v) VF_CHECK(b.vertex(VertexHandle(v)) == b2.vertex(VertexHandle(v)), "oracle:ascii.second-roundtrip", "second round trip of arbitrary positions moves vertex " << v);
        ctx.cnt.add("ascii.arbitrary-position-files");
    }
}

// pending deletions: refused, or written as the logical content
template <class K> static void pending_case(Ctx &ctx) {
    auto m = make_io_mesh<K>(ctx, 3, true, true);
    if (!m->needs_garbage_collection()) { ctx.cls("pending:none"); return; }
    ctx.cnt.add("pending.files");
    XMesh<K> logical; logical = *m; logical.collect_garbage();
    Canon cl = extract_canon(logical, true);
    IO::WriteResult wr;
    std::string bytes = write_ovmb_bytes([&](std::ostream &os) { return IO::ovmb_write(os, *m); }, wr);
    ctx.op("ovmb_write(mesh with pending deletions) -> " + std::string(IO::to_string(wr)));
    if (wr == IO::WriteResult::Ok) { XMesh<PolyK> t; bool ok = read_ovmb(bytes, t, false, false); Canon ct = extract_canon(t, false);
        VF_CHECK(ok && cl.diff(ct, false, false).empty(), "oracle:ovmb.pending-silently-wrong", "ovmb_write of a mesh with pending deletions reported Ok but the file " << (ok ? "reads back as a different mesh" : "cannot be read")); }
    else ctx.cls("pending:ovmb-refused");
    IO::FileManager fm; fm.setVerbosityLevel(0);
    std::ostringstream os; fm.writeStream(os, *m);
    ctx.op(std::string("writeStream(mesh with pending deletions) -> stream ") + (os.good() ? "good" : "failed"));
    if (os.good()) { XMesh<PolyK> t; std::istringstream is(os.str()); bool ok = fm.readStream(is, t, false, false); Canon ct = extract_canon(t, true);
        VF_CHECK(ok && cl.diff(ct, false, false).empty(), "oracle:ascii.pending-silently-wrong", "writeStream of a mesh with pending deletions left the stream good but the file " << (ok ? "reads back as a different mesh: " + cl.diff(ct, false, false) : "cannot be read")); }
    else ctx.cls("pending:ascii-refused");
}

// index-width boundaries (255/256, 65535/65536 entities): the writer switches integer encodings there. The three counts
// that determine handle widths (vertices, halfedges, halffaces) are chosen independently, so that e.g. few halfedges meet many halffaces.
static void boundary_case(Ctx &ctx, bool big, int j) {
    Rng &rng = ctx.rng;
    // classes: 0 small, 1..3 = one below / at / one above the count at which the largest handle stops fitting the narrower width.
    // The 16 combinations of (edge class, face class) are enumerated by the case index, the vertex class every 16 cases.
    const int B = big ? 65536 : 256;
    auto count = [&](int cls, bool halves) { if (cls == 0) return 2 + (int)rng.below(40); int c = halves ? B / 2 : B; return c + cls - 2; };
    int fcls = j % 4, ecls = (j / 4) % 4, vcls = j < 16 ? (int)rng.below(4) : j % 4;
    if (j >= 16) { fcls = (int)rng.below(4); ecls = (int)rng.below(4); }
    int nv = count(vcls, false), ne = count(ecls, true), nf = count(fcls, true);
    int n = B;
    XMesh<PolyK> m;
    for (int i = 0; i < nv; ++i) m.add_vertex(Vec3d(i, i % 7, -i));
    // edges between arbitrary vertices (parallel edges allowed), the last one uses the last vertex
    for (int i = 0; i < ne; ++i) { int a = i + 1 == ne ? nv - 1 : (int)rng.below(nv), b = (int)rng.below(nv); if (a == b) b = (a + 1) % nv; m.add_edge(VertexHandle(a), VertexHandle(b), true); }
    // faces: 2-gons over an edge (closed loops), several per edge when there are more faces than edges; the last edge is used
    for (int i = 0; i < nf; ++i) { int e = i + 1 == nf ? ne - 1 : (int)rng.below(ne); bool flip = rng.chance(1, 2); m.add_face(std::vector<HalfEdgeHandle>{HalfEdgeHandle(2 * e + flip), HalfEdgeHandle(2 * e + !flip)}); }
    // a few cells over distinct halffaces, the last halfface among them
    if (nf > 0) {
        std::vector<int> hfs; for (int i = 0; i < 2 * nf; ++i) hfs.push_back(i);
        std::swap(hfs[0], hfs[2 * nf - 1]); for (size_t i = hfs.size() - 1; i > 1; --i) std::swap(hfs[i], hfs[1 + rng.below(i)]);
        int nc = 1 + (int)rng.below(4); size_t pos = 0;
        for (int c = 0; c < nc && pos < hfs.size(); ++c) { size_t k = std::min<size_t>(hfs.size() - pos, 1 + rng.below(6)); std::vector<HalfFaceHandle> l; for (size_t i = 0; i < k; ++i) l.emplace_back(hfs[pos + i]); pos += k; m.add_cell(l, false); }
    }
    auto p = *m.create_persistent_property<int, ovm::Entity::HalfEdge>("he", -3); for (size_t i = 0; i < p.size(); i += 3) p[HalfEdgeHandle((int)i)] = (int)i;
    auto q = *m.create_persistent_property<bool, ovm::Entity::Vertex>("vb", false); for (size_t i = 0; i < q.size(); ++i) q[VertexHandle((int)i)] = (i * 7) % 3 == 0;
    Canon cm = extract_canon(m, false);
    IO::WriteResult wr; std::string bytes = write_ovmb_bytes([&](std::ostream &os) { return IO::ovmb_write(os, m); }, wr);
    ctx.op("boundary mesh V/E/F = " + std::to_string(m.n_vertices()) + "/" + std::to_string(m.n_edges()) + "/" + std::to_string(m.n_faces()) + " -> " + std::to_string(bytes.size()) + " bytes");
    ctx.cnt.add("ovmb.boundary-files"); ctx.cls("boundary:" + std::to_string(n) + ":v" + std::to_string(vcls) + "e" + std::to_string(ecls) + "f" + std::to_string(fcls));
    VF_CHECK(wr == IO::WriteResult::Ok, "oracle:ovmb.write-failed", "boundary mesh");
    Canon cr; std::string err; VF_CHECK(ref_to_canon(bytes, cr, err), "oracle:ovmb.writer-violates-format", "boundary mesh: " << err);
    cm.topo_type = cr.topo_type;
    VF_CHECK(cm.diff(cr).empty(), "oracle:ovmb.writer-bytes-differ", "boundary mesh (" << n << "): " << cm.diff(cr));
    XMesh<PolyK> t; IO::ReadResult res; VF_CHECK(read_ovmb(bytes, t, false, false, &res), "oracle:ovmb.read-rejected", "boundary mesh: " << IO::to_string(res));
    Canon ct = extract_canon(t, false); ct.topo_type = cm.topo_type;
    VF_CHECK(cm.diff(ct).empty(), "oracle:ovmb.roundtrip-differs", "boundary mesh (" << n << "): " << cm.diff(ct));
}

// valence boundaries: the per-chunk uniform valence is stored in one byte, variable valences switch width at 255/256
static void valence_case(Ctx &ctx) {
    Rng &rng = ctx.rng;
    static const int vals[] = {254, 255, 256, 257, 300, 511, 512, 1000};
    int V = vals[rng.below(8)], Vc = vals[rng.below(8)];
    int mode = (int)rng.below(3);   // 0: faces of one huge valence; 1: cells of one huge valence; 2: mixed valences
    XMesh<PolyK> m;
    auto ring = [&](int n) {
        int base = (int)m.n_vertices(); std::vector<HalfEdgeHandle> hes;
        for (int i = 0; i < n; ++i) m.add_vertex(Vec3d(i * 0.5, (i % 13) - 6, base));   // printable-exact coordinates (the text format keeps ~6 digits)
        for (int i = 0; i < n; ++i) hes.push_back(m.halfedge_handle(m.add_edge(VertexHandle(base + i), VertexHandle(base + (i + 1) % n)), 0));
        m.add_face(hes);
    };
    auto fan = [&](int n, int ncells) {
        int base = (int)m.n_vertices(); std::vector<HalfFaceHandle> side0, side1;
        for (int i = 0; i < n + 2; ++i) m.add_vertex(Vec3d(i, base, i % 5));
        for (int i = 1; i <= n; ++i) { auto f = m.add_face(std::vector<VertexHandle>{VertexHandle(base), VertexHandle(base + i), VertexHandle(base + i + 1)}); side0.push_back(m.halfface_handle(f, 0)); side1.push_back(m.halfface_handle(f, 1)); }
        m.add_cell(side0, false); if (ncells > 1) m.add_cell(side1, false);
    };
    if (mode == 0) { int r = 1 + (int)rng.below(2); for (int i = 0; i < r; ++i) ring(V); }
    else if (mode == 1) fan(Vc, 1 + (int)rng.below(2));
    else { ring(V); fan(Vc, 2); fan(4, 1); ring(3); }
    auto p = *m.create_persistent_property<int, ovm::Entity::HalfEdge>("he", -3); for (size_t i = 0; i < p.size(); i += 3) p[HalfEdgeHandle((int)i)] = (int)i;
    Canon cm = extract_canon(m, false);
    IO::WriteResult wr; std::string bytes = write_ovmb_bytes([&](std::ostream &os) { return IO::ovmb_write(os, m); }, wr);
    ctx.op("valence mesh mode " + std::to_string(mode) + " face valence " + std::to_string(V) + " cell valence " + std::to_string(Vc) + " -> " + std::to_string(bytes.size()) + " bytes");
    ctx.cnt.add("ovmb.valence-files"); ctx.cls("valence:" + std::to_string(mode) + ":" + std::to_string(mode == 1 ? Vc : V));
    VF_CHECK(wr == IO::WriteResult::Ok, "oracle:ovmb.write-failed", "valence mesh");
    Canon cr; std::string err; VF_CHECK(ref_to_canon(bytes, cr, err), "oracle:ovmb.writer-violates-format", "valence mesh (face valence " << V << ", cell valence " << Vc << ", mode " << mode << "): " << err);
    cm.topo_type = cr.topo_type;
    VF_CHECK(cm.diff(cr).empty(), "oracle:ovmb.writer-bytes-differ", "valence mesh (face valence " << V << ", cell valence " << Vc << ", mode " << mode << "): " << cm.diff(cr));
    XMesh<PolyK> t; IO::ReadResult res; VF_CHECK(read_ovmb(bytes, t, false, false, &res), "oracle:ovmb.read-rejected", "valence mesh (face valence " << V << ", cell valence " << Vc << ", mode " << mode << "): " << IO::to_string(res));
    Canon ct = extract_canon(t, false); ct.topo_type = cm.topo_type;
    VF_CHECK(cm.diff(ct).empty(), "oracle:ovmb.roundtrip-differs", "valence mesh (face valence " << V << ", cell valence " << Vc << ", mode " << mode << "): " << cm.diff(ct));
    // the text format has no valence limit
    IO::FileManager fm; fm.setVerbosityLevel(0);
    std::ostringstream os; fm.writeStream(os, m);
    XMesh<PolyK> ta; std::istringstream is(os.str());
    VF_CHECK(os.good() && fm.readStream(is, ta, false, false), "oracle:ascii.read-rejected", "valence mesh");
    Canon ca = extract_canon(ta, true); Canon cma = extract_canon(m, true);
    VF_CHECK(cma.diff(ca, false).empty(), "oracle:ascii.roundtrip-differs", "valence mesh: " << cma.diff(ca, false));
}

static CaseFn mk_c06(const Args &a) {
    bool thorough = a.tier == "thorough";
    int nvar = (int)a.num("variants", thorough ? 12 : 6);
    return [=](Ctx &ctx) {
        long long c = ctx.case_no; int k = (int)(c % 5); int what = (int)(c / 5 % 10);
        if (what == 9) { if (k == 3) pending_case<TetK>(ctx); else if (k == 4) pending_case<HexK>(ctx); else pending_case<PolyK>(ctx); return; }
        if (what == 8 && (k == 0 || k == 2 || k == 3)) { boundary_case(ctx, thorough && (c / 50) % 8 == 7, (int)((c / 50) * 3 + (k == 0 ? 0 : k - 1)) % 20); return; }
        if (what == 8 && k == 1) { valence_case(ctx); return; }
        if (what % 2 == 0) { if (k == 3) ovmb_case<TetK>(ctx, nvar); else if (k == 4) ovmb_case<HexK>(ctx, nvar); else ovmb_case<PolyK>(ctx, nvar); }
        else { if (k == 3) ascii_case<TetK>(ctx); else if (k == 4) ascii_case<HexK>(ctx); else ascii_case<PolyK>(ctx); }
    };
}
VF_REGISTER("C06", mk_c06);
} // namespace vf
