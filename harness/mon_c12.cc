// C12: bottom-up incidences are optional. Twin A (all kinds enabled, never toggled) and twin B
// (random subset, toggled mid-history) execute the same API call stream with the same handles.
#include "registry.hh"
#include "engine.hh"

namespace vf {

template <class M> static void check_disabled_circulators(const M &m, const Scan &s) {
    const bool V = m.has_vertex_bottom_up_incidences(), E = m.has_edge_bottom_up_incidences(), F = m.has_face_bottom_up_incidences();
    auto lv = s.live(0), le = s.live(1), lf = s.live(2), lc = s.live(3);
#define MUST_BE_INVALID(expr, what) do { cur()->cnt.add("disabled-circulators"); auto _it = (expr); \
        VF_CHECK(!_it.valid(), std::string("oracle:disabled-circulator-valid:") + what, what << " is dereferenceable although a bottom-up kind it needs is disabled (V" << V << " E" << E << " F" << F << ")"); } while (0)
    if (!lv.empty()) {
        VertexHandle v(lv[cur()->rng.below(lv.size())]);
        if (!V) { MUST_BE_INVALID(m.voh_iter(v), "voh_iter"); MUST_BE_INVALID(m.vih_iter(v), "vih_iter"); MUST_BE_INVALID(m.vv_iter(v), "vv_iter"); MUST_BE_INVALID(m.ve_iter(v), "ve_iter"); }
        if (!V || !E) MUST_BE_INVALID(m.vhf_iter(v), "vhf_iter");
        if (!V || !E || !F) { MUST_BE_INVALID(m.vf_iter(v), "vf_iter"); MUST_BE_INVALID(m.vc_iter(v), "vc_iter"); MUST_BE_INVALID(m.bv_iter(), "bv_iter"); }
    }
    if (!le.empty()) {
        EdgeHandle e(le[cur()->rng.below(le.size())]); HalfEdgeHandle h(2 * e.idx() + (int)cur()->rng.below(2));
        if (!E) { MUST_BE_INVALID(m.hehf_iter(h), "hehf_iter"); MUST_BE_INVALID(m.hef_iter(h), "hef_iter"); MUST_BE_INVALID(m.ehf_iter(e), "ehf_iter"); MUST_BE_INVALID(m.ef_iter(e), "ef_iter"); }
        if (!E || !F) { MUST_BE_INVALID(m.hec_iter(h), "hec_iter"); MUST_BE_INVALID(m.ec_iter(e), "ec_iter"); MUST_BE_INVALID(m.bhe_iter(), "bhe_iter"); MUST_BE_INVALID(m.be_iter(), "be_iter"); }
    }
    if (!F) {
        if (!lf.empty()) { MUST_BE_INVALID(m.bhf_iter(), "bhf_iter"); MUST_BE_INVALID(m.bf_iter(), "bf_iter");
            MUST_BE_INVALID(m.bhfhf_iter(HalfFaceHandle(2 * lf[cur()->rng.below(lf.size())])), "bhfhf_iter"); }
        if (!lc.empty()) { MUST_BE_INVALID(m.cc_iter(CellHandle(lc[cur()->rng.below(lc.size())])), "cc_iter"); MUST_BE_INVALID(m.bc_iter(), "bc_iter"); }
    }
#undef MUST_BE_INVALID
}

template <class K> static void compare_twins(Twin<K> &A, Engine<K> &B) {
    Scan sa; sa.build(A.mesh); const Scan &sb = B.s;
    cur()->cnt.add("twin.comparisons");
    VF_CHECK(sa.nv == sb.nv && sa.ne == sb.ne && sa.nf == sb.nf && sa.nc == sb.nc, "oracle:twin.counts",
             "all-enabled twin has " << sa.nv << "/" << sa.ne << "/" << sa.nf << "/" << sa.nc << " entities, subset twin " << sb.nv << "/" << sb.ne << "/" << sb.nf << "/" << sb.nc << " [" << B.cfgclass() << "]");
    VF_CHECK(sa.vdel == sb.vdel && sa.edel == sb.edel && sa.fdel == sb.fdel && sa.cdel == sb.cdel, "oracle:twin.deleted-flags", "deletion flags differ [" << B.cfgclass() << "]");
    for (int e = 0; e < sa.ne; ++e) if (!sa.edel[e]) VF_CHECK(sa.ev[e] == sb.ev[e], "oracle:twin.edge-def", "edge " << e << " differs [" << B.cfgclass() << "]");
    for (int f = 0; f < sa.nf; ++f) if (!sa.fdel[f]) VF_CHECK(sa.fhe[f] == sb.fhe[f], "oracle:twin.face-def", "face " << f << ": " << ivec(sa.fhe[f]) << " vs " << ivec(sb.fhe[f]) << " [" << B.cfgclass() << "]");
    for (int c = 0; c < sa.nc; ++c) if (!sa.cdel[c]) VF_CHECK(sa.chf[c] == sb.chf[c], "oracle:twin.cell-def", "cell " << c << ": " << ivec(sa.chf[c]) << " vs " << ivec(sb.chf[c]) << " [" << B.cfgclass() << "]");
    // property values handle for handle (tags on all six kinds, positions)
    for (int v = 0; v < sa.nv; ++v) if (!sa.vdel[v]) VF_CHECK(A.vtag[VertexHandle(v)] == B.vid(v) && A.mesh.vertex(VertexHandle(v)) == B.mesh.vertex(VertexHandle(v)), "oracle:twin.vprop", "vertex " << v);
    for (int e = 0; e < sa.ne; ++e) if (!sa.edel[e]) {
        VF_CHECK(A.etag[EdgeHandle(e)] == B.eid(e), "oracle:twin.eprop", "edge " << e);
        for (int sd = 0; sd < 2; ++sd) VF_CHECK(std::to_string(A.hetag[HalfEdgeHandle(2 * e + sd)]) == B.hetag->get(2 * e + sd), "oracle:twin.heprop", "halfedge " << 2 * e + sd);
    }
    for (int f = 0; f < sa.nf; ++f) if (!sa.fdel[f]) {
        VF_CHECK(A.ftag[FaceHandle(f)] == B.fid(f), "oracle:twin.fprop", "face " << f);
        for (int sd = 0; sd < 2; ++sd) VF_CHECK(std::to_string(A.hftag[HalfFaceHandle(2 * f + sd)]) == B.hftag->get(2 * f + sd), "oracle:twin.hfprop", "halfface " << 2 * f + sd);
    }
    for (int c = 0; c < sa.nc; ++c) if (!sa.cdel[c]) VF_CHECK(A.ctag[CellHandle(c)] == B.cid(c), "oracle:twin.cprop", "cell " << c);
    VF_CHECK(A.mesh.n_logical_vertices() == B.mesh.n_logical_vertices() && A.mesh.n_logical_edges() == B.mesh.n_logical_edges() && A.mesh.n_logical_faces() == B.mesh.n_logical_faces()
             && A.mesh.n_logical_cells() == B.mesh.n_logical_cells() && A.mesh.needs_garbage_collection() == B.mesh.needs_garbage_collection(), "oracle:twin.logical-counts", "logical counts differ [" << B.cfgclass() << "]");
    // caches of enabled kinds equal the never-disabled twin's (as multisets per slot)
    if (B.mesh.has_vertex_bottom_up_incidences()) for (int v = 0; v < sa.nv; ++v) if (!sa.vdel[v]) {
        std::vector<int> a, b; for (auto h : A.mesh.cache_v()[v]) a.push_back(h.idx()); for (auto h : B.mesh.cache_v()[v]) b.push_back(h.idx());
        VF_CHECK(sorted(a) == sorted(b), "oracle:twin.cache_v", "vertex " << v << ": " << ivec(a) << " vs " << ivec(b));
    }
    if (B.mesh.has_edge_bottom_up_incidences()) for (int h = 0; h < 2 * sa.ne; ++h) if (!sa.edel[h >> 1]) {
        std::vector<int> a, b; for (auto x : A.mesh.cache_e()[h]) a.push_back(x.idx()); for (auto x : B.mesh.cache_e()[h]) b.push_back(x.idx());
        VF_CHECK(sorted(a) == sorted(b), "oracle:twin.cache_e", "halfedge " << h << ": " << ivec(a) << " vs " << ivec(b));
    }
    if (B.mesh.has_face_bottom_up_incidences()) for (int h = 0; h < 2 * sa.nf; ++h) if (!sa.fdel[h >> 1])
        VF_CHECK(A.mesh.cache_f()[h] == B.mesh.cache_f()[h], "oracle:twin.cache_f", "halfface " << h);
    check_disabled_circulators(B.mesh, sb);
    check_incidences(B.mesh, sb);
    check_fan_order(B.mesh, sb);
    check_fan_order(A.mesh, sa);
}

template <class K> static void run_twin(Ctx &ctx, EngCfg g) {
    Engine<K> B(ctx, g);
    Twin<K> A;
    A.mesh.enable_deferred_deletion(B.init_mode_used & 1); A.mesh.enable_fast_deletion(B.init_mode_used & 2);
    std::vector<Call> calls; size_t applied = 0;
    B.recorder = &calls;
    B.after_step = [&] { for (; applied < calls.size(); ++applied) A.apply(calls[applied]); compare_twins(A, B); };
    B.run();
}

static CaseFn mk_c12(const Args &a) {
    int steps = (int)a.num("steps", a.tier == "thorough" ? 100 : 30);
    return [=](Ctx &ctx) {
        EngCfg g; g.chk_model = true; g.steps = steps; g.w_del = 14; g.w_swap = 6; g.w_misc = 8; g.allow_set = false; g.allow_clear = true;
        g.fan_bias = 2;
        // the shipped default (deferred+fast, incidences off: what both file readers use while loading) weighted up
        if (ctx.case_no % 4 == 0) { g.init_mode = 3; g.init_bu = 0; }
        int k = (int)(ctx.case_no % 5);
        if (k == 3) run_twin<TetK>(ctx, g); else if (k == 4) run_twin<HexK>(ctx, g); else run_twin<PolyK>(ctx, g);
    };
}
VF_REGISTER("C12", mk_c12);

// C09 uses the plain engine with the fan oracles switched on
template <class K> static void run_fan(Ctx &ctx, EngCfg g) { Engine<K> e(ctx, g); e.run(); }
static CaseFn mk_c09(const Args &a) {
    int steps = (int)a.num("steps", a.tier == "thorough" ? 80 : 24);
    return [=](Ctx &ctx) {
        EngCfg g; g.chk_model = false; g.chk_fan = true; g.chk_inc = false; g.steps = steps; g.allow_set = false; g.allow_clear = false;
        g.fan_bias = 5; g.full_bu_bias = true; g.w_del = 12; g.w_swap = 5; g.w_misc = 5; g.max_c = 14;
        int k = (int)(ctx.case_no % 5);
        if (k == 3) run_fan<TetK>(ctx, g); else if (k == 4) run_fan<HexK>(ctx, g); else run_fan<PolyK>(ctx, g);
    };
}
VF_REGISTER("C09", mk_c09);
} // namespace vf
