// C13: mesh copy and assignment are deep and leave the two meshes independent.
#include "registry.hh"
#include "engine.hh"
#include "snapshot.hh"

namespace vf {

// what a copy promises: entities, definitions, positions, deletion state, modes, incidence settings, persistent props
static std::string promised_diff(const FullSnap &a, const FullSnap &b) {
    std::string d = a.diff(b, false);
    if (a.props != b.props) d += "persistent property set/values; ";
    for (int i = 0; i < 7; ++i) if (a.n_pers[i] != b.n_pers[i]) d += "n_persistent_props[" + std::to_string(i) + "]; ";
    return d;
}
template <class K> struct Watch {   // freezes the observable state of an engine's mesh + held properties
    FullSnap f; typename Engine<K>::Snap t; std::vector<std::vector<std::string>> orphan_vals;
    void take(Engine<K> &e) {
        f.take(e.mesh); e.rescan(); t = e.snapshot();
        orphan_vals.clear();
        for (auto &p : e.orphans) { std::vector<std::string> v; for (size_t i = 0; i < p->size(); ++i) v.push_back(p->get((int)i)); orphan_vals.push_back(v); }
    }
    void expect_same(Engine<K> &e, const char *who, const char *during) {
        Watch now; now.take(e);
        std::string d = f.diff(now.f);
        if (!(t == now.t)) d += "held tag/property arrays; ";
        if (orphan_vals != now.orphan_vals) d += "previously held (orphaned) property arrays; ";
        cur()->cnt.add("independence-checks");
        VF_CHECK(d.empty(), std::string("oracle:not-independent:") + during, who << " changed while " << during << ": " << d);
    }
};

template <class K> static void check_copy(Engine<K> &src, Engine<K> &dst, const char *how, const std::vector<size_t> &src_tracked_before) {
    FullSnap a, b; a.take(src.mesh); b.take(dst.mesh);
    cur()->cnt.add("copies");
    std::string d = promised_diff(a, b);
    VF_CHECK(d.empty(), std::string("oracle:copy-differs:") + how, how << ": copy differs from source in: " << d);
    // the source itself is untouched by being copied from (same number of tracked properties etc.)
    for (int k = 0; k < 7; ++k) VF_CHECK(a.n_props[k] == src_tracked_before[k], "oracle:copy-changed-source", how << ": n_props of the source changed for entity kind " << k);
    // non-persistent properties are not carried over: the copy tracks exactly its persistent ones, the position
    // property and whatever handles the destination engine holds itself
    for (auto &p : src.props) {
        if (p->name.empty() || p->name.rfind("vf:", 0) == 0) continue;
        bool found = p->findable_in(dst.mesh);
        if (p->flavour == 2) VF_CHECK(found, "oracle:copy-lost-persistent", how << ": persistent property " << p->label << " " << p->name << " is missing in the copy");
        else VF_CHECK(!found, "oracle:copy-carried-nonpersistent", how << ": non-persistent property " << p->label << " " << p->name << " was carried over");
        if (found) VF_CHECK(!p->same_storage_as_found(dst.mesh, cur()->rng), "oracle:copy-shares-storage", how << ": writing through the source's handle of " << p->name << " changed the copy's property");
        // an equal-valued copy also fills new slots like the original: same default value
        if (found && p->flavour == 2) { cur()->cnt.add("copied-defaults"); VF_CHECK(p->def_in(dst.mesh) == p->def(), "oracle:copy-differs:default", how << ": persistent property " << p->label << " " << p->name << " has default " << p->def() << " in the source and " << p->def_in(dst.mesh) << " in the copy"); }
    }
    size_t expect_v = b.n_pers[0] + 1;   // + "ovm:position"
    VF_CHECK(b.n_props[0] >= expect_v && b.n_props[0] <= expect_v + dst.orphans.size() + dst.props.size() + 2, "oracle:copy-extra-props", how << ": vertex property count of the copy is " << b.n_props[0]);
}

template <class K> static void check_orphans(Engine<K> &e, bool republish = false) {
    // handles obtained from the assigned-to mesh before the assignment: safely usable, sized to the new counts,
    // still attached, but no longer findable by name (unless the source brought its own property of that name:
    // then it must be a different storage)
    e.rescan();
    for (auto &p : e.orphans) {
        int n = e.n_of_pkind(p->kind);
        cur()->cnt.add("orphan-handles");
        VF_CHECK((int)p->size() == n, "oracle:orphan.size", "handle " << p->label << " held across assignment has " << p->size() << " elements, mesh has " << n);
        VF_CHECK(p->attached(), "oracle:orphan.detached", "handle " << p->label << " reports being detached after assignment");
        for (int i = 0; i < n; ++i) (void)p->get(i);   // every element readable (ASan)
        if (n) p->shadow[0] = p->set_random(0, cur()->rng);
        if (p->republished) { VF_CHECK(p->findable_in(e.mesh) && (n == 0 || p->same_storage_as_found(e.mesh, cur()->rng)), "oracle:orphan.republish-not-found", "re-published property " << p->name << " is not found by name any more"); continue; }
        if (p->name.empty()) continue;
        if (p->findable_in(e.mesh)) VF_CHECK(!p->same_storage_as_found(e.mesh, cur()->rng), "oracle:orphan.findable", "property " << p->name << " held across assignment is still findable by name");
    }
    if (!republish) return;
    // "stay safely usable": a handle held across the assignment can be published again (named, shared, persistent) and is
    // then a persistent property of the mesh like any other - found by name, and carried by the next copy and assignment
    int k = 0; std::vector<IProp *> re;
    for (auto &p : e.orphans) {
        if (p->size() == (size_t)-1 || !cur()->rng.chance(1, 2)) continue;
        std::string nn = "re:" + std::to_string(k++) + ":" + p->name;
        cur()->op("re-publish handle " + p->label + " held across assignment as persistent \"" + nn + "\"");
        std::string r = p->republish(e.mesh, nn);
        if (r == "unsupported") continue;
        cur()->cnt.add("orphans-republished");
        VF_CHECK(r.empty(), "oracle:orphan.republish-failed", "set_name/set_shared/set_persistent on a handle held across assignment " << r);
        VF_CHECK(p->findable_in(e.mesh) && (p->size() == 0 || p->same_storage_as_found(e.mesh, cur()->rng)), "oracle:orphan.republish-not-found", "re-published property " << nn << " is not found by name");
        re.push_back(p.get());
    }
    if (re.empty()) return;
    XMesh<K> cc(e.mesh); XMesh<K> as; as.add_vertex(Vec3d(0, 0, 0)); as = e.mesh;
    cur()->cnt.add("copies", 2);
    for (auto *p : re) {
        int a = p->equal_in(cc), b = p->equal_in(as);
        VF_CHECK(a == 1, "oracle:copy-lost-persistent", "copy construction after re-publishing: persistent property " << p->name << (a < 0 ? " is missing in the copy" : " has other values in the copy"));
        VF_CHECK(b == 1, "oracle:copy-lost-persistent", "assignment after re-publishing: persistent property " << p->name << (b < 0 ? " is missing in the copy" : " has other values in the copy"));
    }
}

template <class K> static std::vector<size_t> tracked_counts(Engine<K> &e) {
    std::vector<size_t> r; ovm::for_each_entity([&](auto tag) { r.push_back(e.mesh.template n_props<decltype(tag)>()); }); return r;
}

template <class K> static void independence(Engine<K> &a, Engine<K> &b, int steps) {
    Watch<K> wa, wb;
    wa.take(a);
    b.after_step = [&] { wa.expect_same(a, "the source", "mutating the copy"); };
    for (int i = 0; i < steps; ++i) { b.mutate_step(); b.check_all(); }
    b.after_step = nullptr;
    wb.take(b);
    a.after_step = [&] { wb.expect_same(b, "the copy", "mutating the source"); };
    for (int i = 0; i < steps; ++i) { a.mutate_step(); a.check_all(); }
    a.after_step = nullptr;
    // property writes on either side
    a.op_write_props(); wb.expect_same(b, "the copy", "writing source properties");
    wa.take(a); b.op_write_props(); wa.expect_same(a, "the source", "writing copy properties");
}

template <class K> static void run_c13(Ctx &ctx, EngCfg g, int steps) {
    g.persistent_tags = true;
    Engine<K> A(ctx, g);
    A.run();
    A.rescan();
    int variant = (int)(ctx.case_no / 5 % 5);
    auto tracked = tracked_counts(A);
    if (variant == 0) {
        ctx.cls("copy-construct");
        EngCfg g2 = g; g2.prop_prefix = "q";
        Engine<K> B(ctx, g2, A, typename Engine<K>::CopyOf());
        check_copy(A, B, "copy construction", tracked);
        B.check_all();
        if (g.allow_props) for (int i = 0; i < 3; ++i) B.op_create_prop();
        independence(A, B, steps);
    } else if (variant == 1 || variant == 2) {
        ctx.cls(variant == 1 ? "assign-over-used-mesh" : "assign-over-empty-mesh");
        EngCfg g2 = g; g2.prop_prefix = (ctx.case_no % 2) ? "q" : "p";   // colliding names every second case
        g2.build_steps = variant == 1 ? g.build_steps : 0; g2.steps = variant == 1 ? 10 : 0;
        Engine<K> B(ctx, g2);
        B.run();
        tracked = tracked_counts(A);
        B.assign_from(A);
        check_copy(A, B, "assignment", tracked);
        check_orphans(B, true);
        B.check_all();
        independence(A, B, steps);
        check_orphans(B);
    } else if (variant == 3) {
        ctx.cls("self-assignment");
        Watch<K> w; w.take(A);
        std::vector<bool> findable; for (auto &p : A.props) findable.push_back(!p->name.empty() && p->findable_in(A.mesh));
        // self-assignment of the whole mesh, or through a reference to one of its base classes (kernel / topology kernel)
        int via = (int)ctx.rng.below(3);
        ctx.op(via == 0 ? "mesh = mesh (self)" : via == 1 ? "(Kernel&)mesh = (Kernel&)mesh (self, through the kernel base)" : "(TopologyKernel&)mesh = (TopologyKernel&)mesh (self, through the topology base)");
        ctx.cls("self-assignment:via" + std::to_string(via));
        auto &self = A.mesh;
        if (via == 0) A.mesh = self;
        else if (via == 1) { K &kb = A.mesh; const K &ks = self; kb = ks; }
        else { ovm::TopologyKernel &tb = A.mesh; const ovm::TopologyKernel &ts = self; tb = ts; }
        w.expect_same(A, "the mesh", "self-assignment");
        for (size_t i = 0; i < A.props.size(); ++i) {
            VF_CHECK(A.props[i]->attached(), "oracle:self-assign.detached", A.props[i]->label);
            if (!A.props[i]->name.empty()) VF_CHECK(A.props[i]->findable_in(A.mesh) == findable[i], "oracle:self-assign.visibility", A.props[i]->label << " " << A.props[i]->name);
        }
        A.check_all();
        for (int i = 0; i < steps; ++i) { A.mutate_step(); A.check_all(); }
    } else {
        ctx.cls("chain a=b=c");
        EngCfg g2 = g; g2.prop_prefix = "q"; g2.steps = 6;
        Engine<K> B(ctx, g2), C(ctx, g2);
        B.run(); C.run();
        ctx.op("c = b = a");
        // chained assignment through the engines' meshes, then re-acquire the tags like assign_from does
        C.mesh = B.mesh = A.mesh;
        FullSnap a, b, c; a.take(A.mesh); b.take(B.mesh); c.take(C.mesh);
        cur()->cnt.add("copies", 2);
        VF_CHECK(promised_diff(a, b).empty(), "oracle:copy-differs:chain", "b differs from a after c = b = a: " << promised_diff(a, b));
        VF_CHECK(promised_diff(a, c).empty(), "oracle:copy-differs:chain", "c differs from a after c = b = a: " << promised_diff(a, c));
        // now make B a proper engine over its mesh again and test independence
        B.assign_from(A);
        independence(A, B, steps);
        FullSnap c2; c2.take(C.mesh);
        VF_CHECK(c.diff(c2).empty(), "oracle:not-independent:chain", "third mesh of the chain changed while the others were mutated: " << c.diff(c2));
    }
}

// mixed kernel assignment: tet/hex content travels through a polyhedral mesh and back
template <class K> static void run_mixed(Ctx &ctx, EngCfg g) {
    g.persistent_tags = true;
    Engine<K> A(ctx, g);
    A.run();
    ctx.cls(std::string("mixed-kernel:") + KernelName<K>::name());
    XMesh<PolyK> P; P.enable_bottom_up_incidences(false);
    auto held = P.template request_vertex_property<int>("held", 5);
    P.add_vertex(Vec3d(1, 2, 3));
    ctx.op("poly = tet/hex mesh");
    static_cast<ovm::GeometryKernel<Vec3d, PolyK> &>(P) = static_cast<const ovm::GeometryKernel<Vec3d, K> &>(A.mesh);
    FullSnap a, p; a.take(A.mesh); p.take(P);
    cur()->cnt.add("copies");
    VF_CHECK(promised_diff(a, p).empty(), "oracle:copy-differs:mixed", "polyhedral mesh assigned from a " << KernelName<K>::name() << " mesh differs: " << promised_diff(a, p));
    VF_CHECK(held.size() == P.n_vertices() && (bool)held, "oracle:orphan.size", "handle held across mixed assignment has " << held.size() << " elements for " << P.n_vertices() << " vertices");
    XMesh<K> T;
    ctx.op("tet/hex = poly mesh");
    static_cast<ovm::GeometryKernel<Vec3d, K> &>(T) = static_cast<const ovm::GeometryKernel<Vec3d, PolyK> &>(P);
    FullSnap t; t.take(T);
    cur()->cnt.add("copies");
    VF_CHECK(promised_diff(a, t).empty(), "oracle:copy-differs:mixed", "round trip through a polyhedral mesh differs: " << promised_diff(a, t));
    // independence: mutate the original, the other two stay
    for (int i = 0; i < 10; ++i) { A.mutate_step(); A.check_all(); }
    FullSnap p2, t2; p2.take(P); t2.take(T);
    cur()->cnt.add("independence-checks", 2);
    VF_CHECK(p.diff(p2).empty() && t.diff(t2).empty(), "oracle:not-independent:mixed", "a mesh assigned across kernels changed when the source was mutated");
    // the specialised kernel keeps working on the round-tripped content
    if (T.n_cells()) { Scan s; s.build(T); check_incidences(T, s); }
}

static CaseFn mk_c13(const Args &a) {
    int steps = (int)a.num("steps", a.tier == "thorough" ? 30 : 12);
    return [=](Ctx &ctx) {
        EngCfg g; g.chk_model = true; g.chk_props = true; g.allow_props = true; g.w_prop = 6; g.steps = 14; g.allow_clear = false;
        g.init_mode = (ctx.case_no % 3 == 0) ? -1 : 1 | (int)(ctx.case_no & 2);   // pending deletions in the source most of the time
        int k = (int)(ctx.case_no % 5);
        if (ctx.case_no % 11 == 10) { if (k % 2) run_mixed<TetK>(ctx, g); else run_mixed<HexK>(ctx, g); return; }
        if (ctx.case_no % 40 == 7) { g.build_steps = 0; g.steps = 0; }   // empty source
        if (k == 3) run_c13<TetK>(ctx, g, steps); else if (k == 4) run_c13<HexK>(ctx, g, steps); else run_c13<PolyK>(ctx, g, steps);
    };
}
VF_REGISTER("C13", mk_c13);
} // namespace vf
