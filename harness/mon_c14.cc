// C14: property registry semantics (sharing by name, visibility, persistence) and lifetime safety.
// A small executable model of the registry is driven by the same random call sequence as the library.
#include "registry.hh"
#include "meshwrap.hh"

namespace vf {
namespace E = ovm::Entity;

struct RMesh : ovm::TopologyKernel {
    RMesh() = default;
    RMesh(const RMesh &) = default;
    RMesh &operator=(const RMesh &) = default;
};

template <class T> struct Tok;
template <> struct Tok<int> { static int mk(int t) { return t; } static const char *n() { return "int"; } };
template <> struct Tok<bool> { static bool mk(int t) { return t & 1; } static const char *n() { return "bool"; } };
template <> struct Tok<double> { static double mk(int t) { return t * 0.5; } static const char *n() { return "double"; } };
template <> struct Tok<std::string> { static std::string mk(int t) { return "s" + std::to_string(t); } static const char *n() { return "string"; } };

struct HBase {
    int sto = -1;   // model storage id
    int type = 0, kind = 0;
    virtual ~HBase() = default;
    virtual bool shared() const = 0; virtual bool persistent() const = 0; virtual bool anonymous() const = 0;
    virtual bool attached() const = 0; virtual std::string name() const = 0; virtual size_t size() const = 0;
    virtual void write(int tok) = 0; virtual bool reads(int tok) const = 0;
    virtual std::unique_ptr<HBase> copy() const = 0;
    virtual std::unique_ptr<HBase> move_out() = 0;
    virtual void set_shared(RMesh &m, bool v) = 0; virtual void set_persistent(RMesh &m, bool v) = 0; virtual void set_name(const std::string &n) = 0;
    virtual std::string first_values() const = 0;
};
template <class T, class ET> struct HT : HBase {
    ovm::PropertyPtr<T, ET> p;
    using H = ovm::HandleT<ET>;
    explicit HT(ovm::PropertyPtr<T, ET> q) : p(std::move(q)) {}
    bool shared() const override { return p.shared(); } bool persistent() const override { return p.persistent(); } bool anonymous() const override { return p.anonymous(); }
    bool attached() const override { return (bool)p; } std::string name() const override { return p.name(); } size_t size() const override { return p.size(); }
    void write(int tok) override { if (p.size()) p[H(0)] = Tok<T>::mk(tok); }
    bool reads(int tok) const override { return p.size() && p[H(0)] == Tok<T>::mk(tok); }
    std::unique_ptr<HBase> copy() const override { auto r = std::make_unique<HT>(p); r->sto = sto; r->type = type; r->kind = kind; return r; }
    std::unique_ptr<HBase> move_out() override { auto r = std::make_unique<HT>(std::move(p)); r->sto = sto; r->type = type; r->kind = kind; return r; }
    void set_shared(RMesh &m, bool v) override { m.set_shared(p, v); } void set_persistent(RMesh &m, bool v) override { m.set_persistent(p, v); }
    void set_name(const std::string &n) override { p.set_name(n); }
    std::string first_values() const override { std::ostringstream o; for (size_t i = 0; i < std::min<size_t>(3, p.size()); ++i) o << (p[H((int)i)] == p.def() ? "d" : "x"); return o.str(); }
};

enum Api { REQUEST, CREATE_SHARED, CREATE_PERSISTENT, CREATE_PRIVATE, GET, EXISTS };
template <class T, class ET> static std::unique_ptr<HBase> call_api(RMesh &m, Api api, const std::string &name, bool &flag) {
    flag = false;
    std::unique_ptr<HBase> r;
    auto wrap = [&](ovm::PropertyPtr<T, ET> p) { r = std::make_unique<HT<T, ET>>(std::move(p)); };
    switch (api) {
    case REQUEST: wrap(m.template request_property<T, ET>(name, Tok<T>::mk(7))); flag = true; break;
    case CREATE_SHARED: { auto o = m.template create_shared_property<T, ET>(name, Tok<T>::mk(7)); if (o) { wrap(*o); flag = true; } break; }
    case CREATE_PERSISTENT: { auto o = m.template create_persistent_property<T, ET>(name, Tok<T>::mk(7)); if (o) { wrap(*o); flag = true; } break; }
    case CREATE_PRIVATE: wrap(m.template create_private_property<T, ET>(name, Tok<T>::mk(7))); flag = true; break;
    case GET: { auto o = m.template get_property<T, ET>(name); if (o) { wrap(*o); flag = true; } break; }
    case EXISTS: flag = m.template property_exists<T, ET>(name); break;
    }
    return r;
}
template <class ET> static std::unique_ptr<HBase> call_t(RMesh &m, Api api, int type, const std::string &name, bool &flag) {
    switch (type) { case 0: return call_api<int, ET>(m, api, name, flag); case 1: return call_api<bool, ET>(m, api, name, flag);
                    case 2: return call_api<double, ET>(m, api, name, flag); default: return call_api<std::string, ET>(m, api, name, flag); }
}
static std::unique_ptr<HBase> call(RMesh &m, Api api, int type, int kind, const std::string &name, bool &flag) {
    std::unique_ptr<HBase> r;
    switch (kind) { case 0: r = call_t<E::Vertex>(m, api, type, name, flag); break; case 1: r = call_t<E::Edge>(m, api, type, name, flag); break;
                    case 2: r = call_t<E::HalfEdge>(m, api, type, name, flag); break; case 3: r = call_t<E::Face>(m, api, type, name, flag); break;
                    case 4: r = call_t<E::HalfFace>(m, api, type, name, flag); break; case 5: r = call_t<E::Cell>(m, api, type, name, flag); break;
                    default: r = call_t<E::Mesh>(m, api, type, name, flag); break; }
    if (r) { r->type = type; r->kind = kind; }
    return r;
}
static size_t n_props_k(const RMesh &m, int k) { switch (k) { case 0: return m.n_props<E::Vertex>(); case 1: return m.n_props<E::Edge>(); case 2: return m.n_props<E::HalfEdge>();
    case 3: return m.n_props<E::Face>(); case 4: return m.n_props<E::HalfFace>(); case 5: return m.n_props<E::Cell>(); default: return m.n_props<E::Mesh>(); } }
static size_t n_pers_k(const RMesh &m, int k) { switch (k) { case 0: return m.n_persistent_props<E::Vertex>(); case 1: return m.n_persistent_props<E::Edge>(); case 2: return m.n_persistent_props<E::HalfEdge>();
    case 3: return m.n_persistent_props<E::Face>(); case 4: return m.n_persistent_props<E::HalfFace>(); case 5: return m.n_persistent_props<E::Cell>(); default: return m.n_persistent_props<E::Mesh>(); } }
template <class ET> static std::vector<std::string> pers_names_t(const RMesh &m) { std::vector<std::string> r; for (auto it = m.persistent_props_begin<ET>(); it != m.persistent_props_end<ET>(); ++it) r.push_back((*it)->name() + "/" + std::to_string((*it)->persistent()) + std::to_string((*it)->shared())); std::sort(r.begin(), r.end()); return r; }
static std::vector<std::string> pers_names(const RMesh &m, int k) { switch (k) { case 0: return pers_names_t<E::Vertex>(m); case 1: return pers_names_t<E::Edge>(m); case 2: return pers_names_t<E::HalfEdge>(m);
    case 3: return pers_names_t<E::Face>(m); case 4: return pers_names_t<E::HalfFace>(m); case 5: return pers_names_t<E::Cell>(m); default: return pers_names_t<E::Mesh>(m); } }
static size_t n_ent(const RMesh &m, int k) { switch (k) { case 0: return m.n_vertices(); case 1: return m.n_edges(); case 2: return m.n_halfedges(); case 3: return m.n_faces(); case 4: return m.n_halffaces(); case 5: return m.n_cells(); default: return 1; } }

struct Sto { int mesh, kind, type; std::string name; bool shared, persistent; int handles = 0; bool mesh_alive = true; bool dead = false; size_t size_at_detach = 0; };

struct Registry {
    Ctx &ctx; Rng &rng;
    std::vector<std::unique_ptr<RMesh>> meshes;   // nullptr = destroyed
    std::vector<Sto> sto;
    std::vector<std::unique_ptr<HBase>> hs;
    int tpool[2], kpool[3];
    explicit Registry(Ctx &c) : ctx(c), rng(c.rng) { tpool[0] = (int)rng.below(4); tpool[1] = (int)rng.below(4); for (auto &k : kpool) k = (int)rng.below(7); }
    static const std::vector<std::string> &names() { static std::vector<std::string> n{"a", "b", "c", ""}; return n; }

    int new_mesh() {
        auto m = std::make_unique<RMesh>();
        int nv = 2 + (int)rng.below(4);
        for (int i = 0; i < nv; ++i) m->add_vertex();
        for (int i = 0; i + 1 < nv; ++i) m->add_edge(VertexHandle(i), VertexHandle(i + 1));
        if (nv >= 3) { m->add_edge(VertexHandle(2), VertexHandle(0)); m->add_face(std::vector<HalfEdgeHandle>{HalfEdgeHandle(0), HalfEdgeHandle(2), HalfEdgeHandle(2 * (nv - 1))}); }
        meshes.push_back(std::move(m));
        return (int)meshes.size() - 1;
    }
    int find_shared(int mesh, int kind, int type, const std::string &name) const {
        if (name.empty()) return -1;
        for (int i = 0; i < (int)sto.size(); ++i) { const Sto &s = sto[i]; if (!s.dead && s.mesh_alive && s.mesh == mesh && s.kind == kind && s.type == type && s.shared && s.name == name) return i; }
        return -1;
    }
    int new_sto(int mesh, int kind, int type, const std::string &name, bool shared, bool pers) { sto.push_back({mesh, kind, type, name, shared, pers, 0, true, false}); return (int)sto.size() - 1; }
    void reap() { for (auto &s : sto) if (!s.dead && s.handles == 0 && !(s.persistent && s.mesh_alive)) s.dead = true; }
    void add_handle(std::unique_ptr<HBase> h, int s) { h->sto = s; sto[s].handles++; hs.push_back(std::move(h)); }
    void drop_handle(size_t i) { sto[hs[i]->sto].handles--; hs.erase(hs.begin() + i); reap(); }
    std::vector<int> live_meshes() const { std::vector<int> r; for (int i = 0; i < (int)meshes.size(); ++i) if (meshes[i]) r.push_back(i); return r; }

    void op_api() {
        auto lm = live_meshes(); if (lm.empty()) { new_mesh(); return; }
        int mi = rng.pick(lm); RMesh &m = *meshes[mi];
        // each case concentrates on 2 value types x 3 entity kinds so that names really collide
        Api api = (Api)rng.below(6); int type = tpool[rng.below(2)], kind = kpool[rng.below(3)];
        std::string name = rng.pick(names());
        static const char *an[] = {"request", "create_shared", "create_persistent", "create_private", "get_property", "property_exists"};
        int found = find_shared(mi, kind, type, name);
        bool flag = false;
        std::ostringstream o; o << an[api] << "<" << (type == 0 ? "int" : type == 1 ? "bool" : type == 2 ? "double" : "string") << "," << pkind(kind) << ">(mesh" << mi << ",\"" << name << "\")";
        auto h = call(m, api, type, kind, name, flag);
        o << "->" << flag; ctx.op(o.str()); ctx.cnt.add(std::string("api.") + an[api]);
        switch (api) {
        case REQUEST:
            if (found >= 0) { ctx.cnt.add("request.hit"); add_handle(std::move(h), found); }
            else add_handle(std::move(h), new_sto(mi, kind, type, name, !name.empty(), false));
            break;
        case CREATE_SHARED: case CREATE_PERSISTENT:
            if (found >= 0) { ctx.cnt.add("create.refused"); VF_CHECK(!flag, "oracle:registry.create-duplicate", o.str() << ": a shared property of that name, type and kind exists but create_* succeeded"); }
            else { VF_CHECK(flag, "oracle:registry.create-refused", o.str() << ": no such shared property exists but create_* returned nothing");
                   if (name.empty()) { ctx.cls("create_shared(empty-name)");
                       std::ostringstream d; d << o.str() << " returned a property with shared()=" << h->shared() << " anonymous()=" << h->anonymous() << ": 'shared implies named' is broken by creation with an empty name";
                       if (h->shared() && h->anonymous()) ctx.soft_fail("oracle:registry.create-shared-anonymous", d.str()); }
                   add_handle(std::move(h), new_sto(mi, kind, type, name, true, api == CREATE_PERSISTENT)); }
            break;
        case CREATE_PRIVATE: add_handle(std::move(h), new_sto(mi, kind, type, name, false, false)); break;
        case GET:
            VF_CHECK(flag == (found >= 0), "oracle:registry.get_property", o.str() << ": model says " << (found >= 0 ? "a shared property exists" : "no shared property (private ones must not be found)"));
            if (flag && found >= 0) add_handle(std::move(h), found);
            break;
        case EXISTS:
            VF_CHECK(flag == (found >= 0), "oracle:registry.property_exists", o.str() << ": model says " << (found >= 0));
            break;
        }
    }
    static const char *pkind(int k) { static const char *n[] = {"V", "E", "HE", "F", "HF", "C", "M"}; return n[k]; }
    void op_transition() {
        if (hs.empty()) return;
        size_t i = rng.below(hs.size()); HBase &h = *hs[i]; Sto &s = sto[h.sto];
        if (!s.mesh_alive) return;   // transitions need the owning mesh
        RMesh &m = *meshes[s.mesh];
        int what = (int)rng.below(5);
        bool threw = false; std::string msg; std::ostringstream o;
        bool expect_throw = false;
        try {
            if (what == 0 || what == 1) {
                bool v = what == 0; o << "set_shared(h" << i << "," << v << ")";
                if (v && !s.shared) { if (s.name.empty()) expect_throw = true; else if (find_shared(s.mesh, s.kind, s.type, s.name) >= 0) expect_throw = true; }
                h.set_shared(m, v);
                if (v) s.shared = true; else { s.shared = false; s.persistent = false; }
            } else if (what == 2 || what == 3) {
                bool v = what == 2; o << "set_persistent(h" << i << "," << v << ")";
                if (v && !s.persistent && !s.shared) expect_throw = true;
                h.set_persistent(m, v);
                s.persistent = v;
            } else {
                // set_name within the domain that keeps "shared => named and unique": private properties may take any
                // name; shared ones are renamed only to fresh unique names
                std::string nn = s.shared ? "u" + std::to_string(ctx.cnt.get("api.set_name")) : rng.pick(names());
                o << "set_name(h" << i << ",\"" << nn << "\")";
                h.set_name(nn); s.name = nn; ctx.cnt.add("api.set_name");
            }
        } catch (const std::runtime_error &e) { threw = true; msg = e.what(); }
        ctx.op(o.str() + (threw ? " threw" : "")); ctx.cnt.add(threw ? "transitions.thrown" : "transitions.done");
        VF_CHECK(threw == expect_throw, "oracle:registry.transition", o.str() << (expect_throw ? " would break 'persistent => shared => named and unique' but did not throw" : " is legal but threw: " + msg));
        reap();
    }
    // set_name outside the safe domain: renaming a shared property to '' or onto a taken name would break
    // 'shared => named and unique'; the statement demands an exception and no change. The name is restored afterwards.
    void op_set_name_probe() {
        std::vector<size_t> cand; for (size_t i = 0; i < hs.size(); ++i) if (sto[hs[i]->sto].mesh_alive && sto[hs[i]->sto].shared && !sto[hs[i]->sto].name.empty()) cand.push_back(i);
        if (cand.empty()) return;
        size_t i = rng.pick(cand); Sto &s = sto[hs[i]->sto];
        std::string target;
        for (auto &o : sto) if (!o.dead && o.mesh_alive && &o != &s && o.mesh == s.mesh && o.kind == s.kind && o.type == s.type && o.shared && o.name != s.name && !o.name.empty()) target = o.name;
        bool collide = !target.empty() && rng.chance(2, 3);
        if (!collide) target = "";
        std::string old = s.name; bool threw = false;
        try { hs[i]->set_name(target); } catch (const std::exception &) { threw = true; }
        ctx.op("probe set_name(h" + std::to_string(i) + ",\"" + target + "\")" + (threw ? " threw" : " accepted"));
        ctx.cnt.add("set_name-probes");
        if (!threw) {
            ctx.soft_fail(collide ? "oracle:registry.set_name-collision-accepted" : "oracle:registry.set_name-empty-accepted",
                          std::string("set_name on the shared property \"") + old + "\" to " + (collide ? "the name \"" + target + "\" of another shared property of the same type and kind" : "the empty name") + " was accepted silently (no exception), breaking 'shared => named and unique'");
            hs[i]->set_name(old);
        }
    }
    void op_handle() {
        if (hs.empty()) return;
        size_t i = rng.below(hs.size());
        int what = (int)rng.below(4);
        if (what == 0) { ctx.op("copy handle h" + std::to_string(i)); auto c = hs[i]->copy(); int s = c->sto; add_handle(std::move(c), s); ctx.cnt.add("handles.copied"); }
        else if (what == 1) { ctx.op("move handle h" + std::to_string(i)); auto c = hs[i]->move_out(); int s = hs[i]->sto; hs[i] = std::move(c); hs[i]->sto = s; ctx.cnt.add("handles.moved"); }
        else { ctx.op("drop handle h" + std::to_string(i)); drop_handle(i); ctx.cnt.add("handles.dropped"); }
    }
    void op_mesh() {
        auto lm = live_meshes();
        int what = (int)rng.below(9);
        if (lm.empty() || (what == 0 && meshes.size() < 4)) { ctx.op("new mesh"); new_mesh(); return; }
        int mi = rng.pick(lm); RMesh &m = *meshes[mi];
        auto unshare_kind = [&](int mesh, int kind) { for (auto &s : sto) if (!s.dead && s.mesh_alive && s.mesh == mesh && (kind < 0 || s.kind == kind)) { s.shared = false; s.persistent = false; } reap(); };
        auto clone_into = [&](int from, int to) { size_t n = sto.size(); for (size_t i = 0; i < n; ++i) { Sto s = sto[i]; if (!s.dead && s.mesh_alive && s.mesh == from && s.persistent) new_sto(to, s.kind, s.type, s.name, true, true); } };
        if (what == 1) { int k = (int)rng.below(7); ctx.op("clear_props<" + std::string(pkind(k)) + ">(mesh" + std::to_string(mi) + ")");
            switch (k) { case 0: m.clear_vertex_props(); break; case 1: m.clear_edge_props(); break; case 2: m.clear_halfedge_props(); break; case 3: m.clear_face_props(); break;
                         case 4: m.clear_halfface_props(); break; case 5: m.clear_cell_props(); break; default: m.clear_mesh_props(); }
            unshare_kind(mi, k); ctx.cnt.add("mesh.clear_props"); }
        else if (what == 2) { ctx.op("clear_all_props(mesh" + std::to_string(mi) + ")"); m.clear_all_props(); unshare_kind(mi, -1); ctx.cnt.add("mesh.clear_all_props"); }
        else if (what == 3) { bool cp = rng.chance(1, 2); ctx.op("clear(" + std::to_string(cp) + ")(mesh" + std::to_string(mi) + ")"); m.clear(cp); if (cp) unshare_kind(mi, -1); ctx.cnt.add("mesh.clear"); }
        else if (what == 4 && meshes.size() < 5) { ctx.op("copy-construct mesh" + std::to_string(meshes.size()) + " from mesh" + std::to_string(mi)); meshes.push_back(std::make_unique<RMesh>(m)); clone_into(mi, (int)meshes.size() - 1); ctx.cnt.add("mesh.copy"); }
        else if (what == 5 && lm.size() >= 2) { int mj = rng.pick(lm); ctx.op("mesh" + std::to_string(mj) + " = mesh" + std::to_string(mi)); *meshes[mj] = m; if (mj != mi) { unshare_kind(mj, -1); clone_into(mi, mj); } ctx.cnt.add("mesh.assign"); }
        else if (what == 6) { ctx.op("destroy mesh" + std::to_string(mi)); for (auto &s : sto) if (!s.dead && s.mesh == mi && s.mesh_alive) { s.size_at_detach = n_ent(m, s.kind); } meshes[mi].reset(); for (auto &s : sto) if (!s.dead && s.mesh == mi && s.mesh_alive) { s.mesh_alive = false; s.persistent = false; } reap(); ctx.cnt.add("mesh.destroy"); }
        else { ctx.op("add_vertex/add_edge(mesh" + std::to_string(mi) + ")"); auto v = m.add_vertex(); if (m.n_vertices() >= 2) m.add_edge(VertexHandle(0), v, true); ctx.cnt.add("mesh.grow"); }
    }
    void observe() {
        ctx.cnt.add("observations");
        for (int mi : live_meshes()) {
            const RMesh &m = *meshes[mi];
            for (int k = 0; k < 7; ++k) {
                size_t alive = 0, pers = 0; std::vector<std::string> pn;
                for (auto &s : sto) if (!s.dead && s.mesh_alive && s.mesh == mi && s.kind == k) { ++alive; if (s.persistent) { ++pers; pn.push_back(s.name + "/11"); } }
                std::sort(pn.begin(), pn.end());
                VF_CHECK(n_props_k(m, k) == alive, "oracle:registry.n_props", "mesh" << mi << " kind " << pkind(k) << ": n_props=" << n_props_k(m, k) << " model: " << alive << " storages referenced or persistent");
                VF_CHECK(n_pers_k(m, k) == pers, "oracle:registry.n_persistent_props", "mesh" << mi << " kind " << pkind(k) << ": " << n_pers_k(m, k) << " model " << pers);
                VF_CHECK(pers_names(m, k) == pn, "oracle:registry.persistent-iteration", "mesh" << mi << " kind " << pkind(k) << ": iteration yields " << vec_str(pers_names(m, k)) << " model " << vec_str(pn));
            }
        }
        for (size_t i = 0; i < hs.size(); ++i) {
            HBase &h = *hs[i]; const Sto &s = sto[h.sto];
            VF_CHECK(!s.dead, "oracle:registry.model-bug", "handle to dead storage");
            // after its mesh is gone a handle keeps its data and reports being detached; its flags are not specified
            if (s.mesh_alive) VF_CHECK(h.shared() == s.shared && h.persistent() == s.persistent && h.name() == s.name && h.anonymous() == s.name.empty(), "oracle:registry.flags",
                     "h" << i << ": shared/persistent/name = " << h.shared() << h.persistent() << " \"" << h.name() << "\", model " << s.shared << s.persistent << " \"" << s.name << "\"");
            VF_CHECK(h.attached() == s.mesh_alive, "oracle:registry.attached", "h" << i << ": operator bool = " << h.attached() << " but its mesh is " << (s.mesh_alive ? "alive" : "destroyed"));
            if (s.mesh_alive) VF_CHECK(h.size() == n_ent(*meshes[s.mesh], s.kind), "oracle:registry.size", "h" << i << " size " << h.size() << " mesh has " << n_ent(*meshes[s.mesh], s.kind));
            VF_CHECK(!(s.persistent && !s.shared) && !(s.shared && s.name.empty() && false), "oracle:registry.invariant", "persistent but not shared");
            if (s.mesh_alive && h.persistent()) VF_CHECK(h.shared(), "oracle:registry.persistent-not-shared", "h" << i);
            if (!s.mesh_alive) { ctx.cnt.add("detached-handles-observed"); VF_CHECK(h.size() == s.size_at_detach, "oracle:registry.detached-data-lost", "h" << i << " outlived its mesh: size " << h.size() << " was " << s.size_at_detach); }
            (void)h.first_values();
        }
        // storage identity by write-through between two random handles of equal type and kind
        if (hs.size() >= 2) for (int t = 0; t < 3; ++t) {
            size_t a = rng.below(hs.size()), b = rng.below(hs.size());
            if (a == b || hs[a]->type != hs[b]->type || hs[a]->kind != hs[b]->kind || hs[a]->size() == 0 || hs[b]->size() == 0) continue;
            hs[a]->write(11); bool r1 = hs[b]->reads(11); hs[a]->write(12); bool r2 = hs[b]->reads(12);
            bool same = r1 && r2, expect = hs[a]->sto == hs[b]->sto;
            ctx.cnt.add(expect ? "identity.same" : "identity.different");
            VF_CHECK(same == expect, "oracle:registry.identity", "h" << a << " and h" << b << (expect ? " must share one storage but writes are not visible" : " are different storages but a write through one is visible through the other"));
        }
    }
};

static CaseFn mk_c14(const Args &a) {
    int calls = (int)a.num("calls", a.tier == "thorough" ? 120 : 60);
    return [=](Ctx &ctx) {
        Registry R(ctx);
        R.new_mesh();
        for (int i = 0; i < calls; ++i) {
            int r = (int)ctx.rng.below(20);
            if (r == 0 && ctx.rng.chance(1, 3)) R.op_set_name_probe(); else if (r < 9) R.op_api(); else if (r < 13) R.op_transition(); else if (r < 17) R.op_handle(); else R.op_mesh();
            R.observe();
        }
        // teardown in random order: meshes and handles
        while (!R.hs.empty() || !R.live_meshes().empty()) {
            auto lm = R.live_meshes();
            if (!lm.empty() && (R.hs.empty() || ctx.rng.chance(1, 3))) { int mi = ctx.rng.pick(lm); ctx.op("destroy mesh" + std::to_string(mi)); for (auto &s : R.sto) if (!s.dead && s.mesh == mi && s.mesh_alive) s.size_at_detach = n_ent(*R.meshes[mi], s.kind); R.meshes[mi].reset(); for (auto &s : R.sto) if (!s.dead && s.mesh == mi && s.mesh_alive) { s.mesh_alive = false; s.persistent = false; } R.reap(); }
            else { size_t i = ctx.rng.below(R.hs.size()); ctx.op("drop handle h" + std::to_string(i)); R.drop_handle(i); }
            R.observe();
        }
    };
}
VF_REGISTER("C14", mk_c14);
} // namespace vf
