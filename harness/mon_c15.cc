// C15: tetrahedral kernel - shape invariants, vertex-order contracts, TetTopology labels, edge collapse.
#include "registry.hh"
#include "engine.hh"
#include <OpenVolumeMesh/Unstable/Topology/TetTopology.hh>
#include <OpenVolumeMesh/Unstable/Topology/TriangleTopology.hh>

namespace vf {
using TT = ovm::TetTopology;

// parity of the permutation taking tuple a to tuple b (same elements); -1 if not a permutation
static int perm_parity(const std::vector<int> &a, const std::vector<int> &b) {
    if (a.size() != b.size()) return -1;
    std::vector<int> p(a.size());
    for (size_t i = 0; i < a.size(); ++i) { auto it = std::find(b.begin(), b.end(), a[i]); if (it == b.end()) return -1; p[i] = (int)(it - b.begin()); }
    std::vector<int> q = p; std::sort(q.begin(), q.end()); for (size_t i = 0; i < q.size(); ++i) if (q[i] != (int)i) return -1;
    int inv = 0; for (size_t i = 0; i < p.size(); ++i) for (size_t j = i + 1; j < p.size(); ++j) inv += p[i] > p[j];
    return inv & 1;
}
static bool is_rot(const std::vector<int> &a, const std::vector<int> &b) {
    if (a.size() != b.size()) return false; size_t n = a.size();
    for (size_t r = 0; r < n; ++r) { bool ok = true; for (size_t i = 0; i < n && ok; ++i) ok = a[(i + r) % n] == b[i]; if (ok) return true; }
    return false;
}
// brute-force oriented vertex tuple of a tet cell: first halfface's cycle + apex
static std::vector<int> cell_tuple(const Scan &s, int c, int hf = -1) {
    if (hf < 0) hf = s.chf[c][0];
    auto t = s.hf_verts(hf);
    std::set<int> all; for (int g : s.chf[c]) for (int v : s.hf_verts(g)) all.insert(v);
    for (int v : all) if (std::find(t.begin(), t.end(), v) == t.end()) t.push_back(v);
    return t;
}
static std::vector<int> toi(const std::vector<VertexHandle> &v) { std::vector<int> r; for (auto x : v) r.push_back(x.idx()); return r; }

template <class M> static void check_tet_shape(const M &, const Scan &s) {
    for (int f = 0; f < s.nf; ++f) if (!s.fdel[f]) VF_CHECK(s.fhe[f].size() == 3, "oracle:tet.face-valence", "face " << f << " has " << s.fhe[f].size() << " edges");
    for (int c = 0; c < s.nc; ++c) if (!s.cdel[c]) {
        VF_CHECK(s.chf[c].size() == 4, "oracle:tet.cell-valence", "cell " << c << " has " << s.chf[c].size() << " faces");
        std::set<int> vs; for (int hf : s.chf[c]) for (int v : s.hf_verts(hf)) vs.insert(v);
        VF_CHECK(vs.size() == 4, "oracle:tet.cell-vertices", "cell " << c << " has " << vs.size() << " distinct vertices");
    }
}

template <class M> static void check_tet_orders(const M &m, const Scan &s) {
    Ctx &ctx = *cur();
    if (!m.has_face_bottom_up_incidences() || s.multi_cell_hf) return;
    for (int c = 0; c < s.nc; ++c) {
        if (s.cdel[c]) continue;
        CellHandle ch(c);
        auto base = cell_tuple(s, c);
        ctx.cnt.add("tet.cells-checked");
        VF_CHECK(toi(m.get_cell_vertices(ch)) == base, "oracle:tet.get_cell_vertices(c)", "cell " << c << ": " << ivec(toi(m.get_cell_vertices(ch))) << " expected first halfface's cycle + apex " << ivec(base));
        VF_CHECK(collect_valid(m.tv_iter(ch)) == base, "oracle:tet.tv_iter", "cell " << c);
        for (int v : base) {
            auto r = toi(m.get_cell_vertices(ch, VertexHandle(v)));
            VF_CHECK(r.size() == 4 && r[0] == v && perm_parity(base, r) == 0, "oracle:tet.get_cell_vertices(c,v)", "cell " << c << " start " << v << ": " << ivec(r) << " is not an orientation-preserving listing of " << ivec(base) << " starting at the vertex");
            if (v != base[3]) { std::vector<int> f3(r.begin(), r.begin() + 3), b3(base.begin(), base.begin() + 3);
                VF_CHECK(is_rot(b3, f3) && r[3] == base[3], "oracle:tet.get_cell_vertices(c,v).cycle", "cell " << c << " start " << v << ": " << ivec(r) << " expected the first halfface's cycle from there, then the apex"); }
            int oh = m.vertex_opposite_halfface(ch, VertexHandle(v)).idx();
            int exp = -1; for (int hf : s.chf[c]) { auto hv = s.hf_verts(hf); if (std::find(hv.begin(), hv.end(), v) == hv.end()) exp = hf; }
            VF_CHECK(oh == exp, "oracle:tet.vertex_opposite_halfface", "cell " << c << " vertex " << v << ": " << oh << " expected " << exp);
            VF_CHECK(m.halfface_opposite_vertex(HalfFaceHandle(oh)).idx() == v, "oracle:tet.opposite-inverse", "cell " << c << " vertex " << v);
        }
        for (int hf : s.chf[c]) {
            HalfFaceHandle hfh(hf);
            auto t = cell_tuple(s, c, hf);
            VF_CHECK(toi(m.get_cell_vertices(hfh)) == t, "oracle:tet.get_cell_vertices(hf)", "halfface " << hf << ": " << ivec(toi(m.get_cell_vertices(hfh))) << " expected " << ivec(t));
            VF_CHECK(m.halfface_opposite_vertex(hfh).idx() == t[3], "oracle:tet.halfface_opposite_vertex", "halfface " << hf);
            VF_CHECK(m.vertex_opposite_halfface(ch, VertexHandle(t[3])).idx() == hf, "oracle:tet.opposite-inverse2", "halfface " << hf);
            if (s.hf_boundary(hf ^ 1)) VF_CHECK(!m.halfface_opposite_vertex(HalfFaceHandle(hf ^ 1)).is_valid(), "oracle:tet.halfface_opposite_vertex(boundary)", "boundary halfface " << (hf ^ 1));
            auto hes = s.hf_hes(hf);
            for (int i = 0; i < 3; ++i) {
                auto r = toi(m.get_cell_vertices(hfh, HalfEdgeHandle(hes[i])));
                std::vector<int> e{s.from(hes[i]), s.to(hes[i]), s.to(hes[(i + 1) % 3]), t[3]};
                VF_CHECK(r == e, "oracle:tet.get_cell_vertices(hf,he)", "halfface " << hf << " halfedge " << hes[i] << ": " << ivec(r) << " expected " << ivec(e));
            }
        }
    }
}

// ---- TetTopology / TriangleTopology labels
#define HF_LABELS(X) \
    X(bdc, BDC, B, D, C, 1) X(dcb, DCB, D, C, B, 1) X(cbd, CBD, C, B, D, 1) X(acd, ACD, A, C, D, 1) X(cda, CDA, C, D, A, 1) X(dac, DAC, D, A, C, 1) \
    X(bad, BAD, B, A, D, 1) X(adb, ADB, A, D, B, 1) X(dba, DBA, D, B, A, 1) X(abc, ABC, A, B, C, 1) X(bca, BCA, B, C, A, 1) X(cab, CAB, C, A, B, 1) \
    X(bcd, BCD, B, C, D, 0) X(dbc, DBC, D, B, C, 0) X(cdb, CDB, C, D, B, 0) X(adc, ADC, A, D, C, 0) X(cad, CAD, C, A, D, 0) X(dca, DCA, D, C, A, 0) \
    X(bda, BDA, B, D, A, 0) X(abd, ABD, A, B, D, 0) X(dab, DAB, D, A, B, 0) X(acb, ACB, A, C, B, 0) X(bac, BAC, B, A, C, 0) X(cba, CBA, C, B, A, 0)
#define HE_LABELS(X) X(ab, AB, A, B) X(bc, BC, B, C) X(ca, CA, C, A) X(cd, CD, C, D) X(ad, AD, A, D) X(bd, BD, B, D) \
                     X(ba, BA, B, A) X(cb, CB, C, B) X(ac, AC, A, C) X(dc, DC, D, C) X(da, DA, D, A) X(db, DB, D, B)

template <class M> static void check_one_labeling(const M &m, const Scan &s, int c, const TT &tt, int given_hf, int given_a, const char *ctor) {
    Ctx &ctx = *cur();
    ctx.cnt.add("tet.labelings");
    int v[4] = {tt.a().idx(), tt.b().idx(), tt.c().idx(), tt.d().idx()};
    std::set<int> vs(v, v + 4), cv; for (int hf : s.chf[c]) for (int x : s.hf_verts(hf)) cv.insert(x);
    VF_CHECK(vs.size() == 4 && vs == cv, "oracle:tettopo.vertices", ctor << " cell " << c << ": labelled vertices " << v[0] << "," << v[1] << "," << v[2] << "," << v[3] << " are not the cell's four vertices");
    if (given_a >= 0) VF_CHECK(v[0] == given_a, "oracle:tettopo.a", ctor << " cell " << c << ": a=" << v[0] << " requested " << given_a);
    if (given_hf >= 0) VF_CHECK(tt.abc().idx() == given_hf, "oracle:tettopo.abc", ctor << " cell " << c << ": abc=" << tt.abc().idx() << " requested " << given_hf);
    auto lab = [&](int L) { return v[L]; };
#define CHK_HE(fn, L, X, Y) { int h = tt.fn().idx(); \
        VF_CHECK(h >= 0 && h < 2 * s.ne && s.from(h) == lab(TT::X) && s.to(h) == lab(TT::Y), "oracle:tettopo.halfedge", ctor << " cell " << c << ": " #fn "() = halfedge " << h << " does not join " #X "=" << lab(TT::X) << " to " #Y "=" << lab(TT::Y)); \
        auto gl = tt.get_label(HalfEdgeHandle(h)); VF_CHECK(gl && *gl == TT::L, "oracle:tettopo.get_label(he)", ctor << " cell " << c << ": get_label(" #fn "()) != " #L); \
        VF_CHECK((tt.template heh<TT::L>().idx()) == h && (tt.template heh<TT::X, TT::Y>().idx()) == h, "oracle:tettopo.heh<>", ctor << " " #L); }
    HE_LABELS(CHK_HE)
#undef CHK_HE
#define CHK_HF(fn, L, X, Y, Z, INNER) { int hf = tt.fn().idx(); std::vector<int> want{lab(TT::X), lab(TT::Y), lab(TT::Z)}; \
        VF_CHECK(hf >= 0 && hf < 2 * s.nf && is_rot(s.hf_verts(hf), want), "oracle:tettopo.halfface", ctor << " cell " << c << ": " #fn "() = halfface " << hf << " is not on " #X #Y #Z " in that rotation"); \
        bool in_cell = std::find(s.chf[c].begin(), s.chf[c].end(), INNER ? hf : (hf ^ 1)) != s.chf[c].end(); \
        VF_CHECK(in_cell, "oracle:tettopo.halfface-side", ctor << " cell " << c << ": " #fn "() is " << (INNER ? "not the cell's halfface" : "not the opposite of the cell's halfface")); \
        auto gl = tt.get_label(HalfFaceHandle(hf), VertexHandle(lab(TT::X))); VF_CHECK(gl && *gl == TT::L, "oracle:tettopo.get_label(hf,v)", ctor << " cell " << c << ": get_label(" #fn "(), " #X ") != " #L); \
        auto g0 = tt.get_label(HalfFaceHandle(hf)); VF_CHECK(g0 && TT::inner(*g0) == (TT::inner(TT::L) & ~3) && TT::is_inner(*g0) == (bool)INNER, "oracle:tettopo.get_label(hf)", ctor << " cell " << c << " " #fn); \
        VF_CHECK((tt.template hfh<TT::L>().idx()) == hf, "oracle:tettopo.hfh<>", ctor << " " #L); \
        auto tri = tt.template triangle_topology<TT::L>(); auto tri2 = tt.triangle_topology(TT::L); \
        VF_CHECK(tri == tri2 && tri.a().idx() == want[0] && tri.b().idx() == want[1] && tri.c().idx() == want[2] \
                 && s.from(tri.ab().idx()) == want[0] && s.to(tri.ab().idx()) == want[1] && s.from(tri.bc().idx()) == want[1] && s.to(tri.bc().idx()) == want[2] && s.from(tri.ca().idx()) == want[2] && s.to(tri.ca().idx()) == want[0], \
                 "oracle:triangletopo.from-tet", ctor << " cell " << c << ": triangle_topology<" #L "> inconsistent"); }
    HF_LABELS(CHK_HF)
#undef CHK_HF
    for (int i = 0; i < 4; ++i) { auto gl = tt.get_label(VertexHandle(v[i])); VF_CHECK(gl && (int)*gl == i, "oracle:tettopo.get_label(v)", ctor << " cell " << c); }
    VF_CHECK(!tt.get_label(VertexHandle(s.nv + 5)), "oracle:tettopo.get_label(foreign)", "foreign vertex got a label");
    (void)m;
}

template <class M> static void check_tet_labels(const M &m, const Scan &s, Rng &rng) {
    if (!m.has_face_bottom_up_incidences() || s.multi_cell_hf) return;
    auto lc = s.live(3);
    // all 24 (halfface, start vertex)... = 12 (hf, a) choices per cell x (with / without explicit cell) on a sample of cells
    rng.shuffle(lc); if (lc.size() > 3) lc.resize(3);
    for (int c : lc) {
        for (int hf : s.chf[c]) for (int a : s.hf_verts(hf)) {
            check_one_labeling(m, s, c, TT(m, CellHandle(c), HalfFaceHandle(hf), VertexHandle(a)), hf, a, "TetTopology(mesh,ch,abc,a)");
            check_one_labeling(m, s, c, TT(m, HalfFaceHandle(hf), VertexHandle(a)), hf, a, "TetTopology(mesh,abc,a)");
            ovm::TriangleTopology t1(m, HalfFaceHandle(hf), VertexHandle(a)), t0(m, HalfFaceHandle(hf));
            std::vector<int> tv{t1.a().idx(), t1.b().idx(), t1.c().idx()}, t0v{t0.a().idx(), t0.b().idx(), t0.c().idx()};
            VF_CHECK(tv[0] == a && is_rot(s.hf_verts(hf), tv) && t0v == s.hf_verts(hf), "oracle:triangletopo.vertices", "halfface " << hf << " start " << a << ": " << ivec(tv));
            VF_CHECK(s.from(t1.ab().idx()) == tv[0] && s.to(t1.ab().idx()) == tv[1] && s.from(t1.bc().idx()) == tv[1] && s.to(t1.bc().idx()) == tv[2] && s.from(t1.ca().idx()) == tv[2] && s.to(t1.ca().idx()) == tv[0], "oracle:triangletopo.halfedges", "halfface " << hf);
        }
        check_one_labeling(m, s, c, TT(m, CellHandle(c), HalfFaceHandle(s.chf[c][1])), s.chf[c][1], -1, "TetTopology(mesh,ch,abc)");
        std::set<int> cv; for (int hf : s.chf[c]) for (int x : s.hf_verts(hf)) cv.insert(x);
        for (int a : cv) check_one_labeling(m, s, c, TT(m, CellHandle(c), VertexHandle(a)), -1, a, "TetTopology(mesh,ch,a)");
        check_one_labeling(m, s, c, TT(m, CellHandle(c)), s.chf[c][0], -1, "TetTopology(mesh,ch)");
    }
}

// ---- collapse_edge
struct TetDriver {
    Engine<TetK> &e; Ctx &ctx; Rng &rng;
    explicit TetDriver(Engine<TetK> &en) : e(en), ctx(en.ctx), rng(en.rng) {}
    const Scan &s() const { return e.s; }

    // clean simplicial complex: no parallel edges, no two faces / cells on the same vertex set
    bool clean_complex() const {
        std::set<std::pair<int, int>> es; std::set<std::vector<int>> fs, cs;
        for (int x : s().live(1)) { auto k = std::minmax(s().ev[x][0], s().ev[x][1]); if (k.first == k.second || !es.insert(k).second) return false; }
        for (int f : s().live(2)) { auto v = sorted(s().hf_verts(2 * f)); if (v.size() != 3 || uniq(v).size() != 3 || !fs.insert(v).second) return false; }
        for (int c : s().live(3)) { std::vector<int> v; for (int hf : s().chf[c]) for (int x : s().hf_verts(hf)) v.push_back(x); v = uniq(v); if (v.size() != 4 || !cs.insert(v).second) return false; }
        return !s().multi_cell_hf;
    }
    // link of a simplex (given as sorted vertex set) in the complex of all live simplices, as a set of simplices
    std::set<std::vector<int>> link(const std::vector<int> &sx) const {
        std::set<std::vector<int>> L;
        auto consider = [&](std::vector<int> t) {
            t = uniq(t);
            if (!std::includes(t.begin(), t.end(), sx.begin(), sx.end())) return;
            // all faces of t disjoint from sx: subsets of t \ sx
            std::vector<int> rest; std::set_difference(t.begin(), t.end(), sx.begin(), sx.end(), std::back_inserter(rest));
            for (int mask = 1; mask < (1 << rest.size()); ++mask) { std::vector<int> sub; for (size_t i = 0; i < rest.size(); ++i) if (mask >> i & 1) sub.push_back(rest[i]); L.insert(sub); }
        };
        for (int x : s().live(1)) consider({s().ev[x][0], s().ev[x][1]});
        for (int f : s().live(2)) consider(s().hf_verts(2 * f));
        for (int c : s().live(3)) { std::vector<int> v; for (int hf : s().chf[c]) for (int x : s().hf_verts(hf)) v.push_back(x); consider(v); }
        return L;
    }
    bool collapsible(int h) const {
        int a = s().from(h), b = s().to(h);
        auto la = link({a}), lb = link({b}), lab = link(uniq({a, b}));
        std::set<std::vector<int>> inter; for (auto &x : la) if (lb.count(x)) inter.insert(x);
        return inter == lab;
    }
    bool try_collapse() {
        if (!e.mesh.has_full_bottom_up_incidences() || !clean_complex()) return false;
        std::vector<int> cand;
        for (int x : s().live(1)) for (int sd = 0; sd < 2; ++sd) if (collapsible(2 * x + sd)) cand.push_back(2 * x + sd);
        ctx.cnt.add("collapse.candidates", (long long)cand.size());
        if (cand.empty()) return false;
        int h = rng.pick(cand); int a = s().from(h), b = s().to(h);
        int ida = e.vid(a), idb = e.vid(b);
        // expected cells in id space: oriented 4-tuples of vertex ids, keyed by cell id
        std::map<int, std::vector<int>> expect;
        int dropped = 0;
        for (int c : s().live(3)) {
            auto t = cell_tuple(s(), c); bool ha = false, hb = false;
            for (auto &v : t) { ha |= v == a; hb |= v == b; }
            if (ha && hb) { ++dropped; continue; }
            std::vector<int> ids; for (int v : t) ids.push_back(v == a ? idb : e.vid(v));
            expect[e.cid(c)] = ids;
        }
        // survivors among the vertices and their user property values (vertex + cell properties are judged)
        std::map<int, std::vector<std::string>> vprops, cprops;
        for (int v : s().live(0)) if (v != a) for (auto &p : e.props) if (p->kind == 0) vprops[e.vid(v)].push_back(p->get(v));
        for (int c : s().live(3)) if (expect.count(e.cid(c))) for (auto &p : e.props) if (p->kind == 5) cprops[e.cid(c)].push_back(p->get(c));
        ctx.op("collapse_edge(" + std::to_string(h) + ": " + std::to_string(a) + "->" + std::to_string(b) + ")[" + e.cfgclass() + "] cells=" + std::to_string(s().live(3).size()) + " dropped=" + std::to_string(dropped));
        ctx.cnt.add("op.collapse_edge"); ctx.cnt.add("collapse.cells-dropped", dropped); ctx.cnt.add("collapse.cells-rewritten", (long long)[&] { long long n = 0; for (int c : s().live(3)) { auto t = cell_tuple(s(), c); n += std::find(t.begin(), t.end(), a) != t.end() && std::find(t.begin(), t.end(), b) == t.end(); } return n; }());
        bool was_def = e.deferred();
        auto ret = e.mesh.collapse_edge(HalfEdgeHandle(h));
        e.rescan();
        VF_CHECK(e.deferred() == was_def, "oracle:collapse.mode", "collapse_edge changed the deferred deletion mode");
        check_tet_shape(e.mesh, s());
        VF_CHECK(ret.is_valid() && ret.idx() < s().nv && !s().vdel[ret.idx()] && e.vid(ret.idx()) == idb, "oracle:collapse.returned-handle", "collapse_edge returned " << ret.idx() << " which carries id " << (ret.is_valid() && ret.idx() < s().nv ? e.vid(ret.idx()) : -1) << ", expected the vertex with id " << idb << " [" << e.cfgclass() << "]");
        // vertices: exactly a vanished
        std::set<int> vids; for (int v : s().live(0)) vids.insert(e.vid(v));
        std::set<int> vexp; for (int i = 0; i < (int)e.model.v.size(); ++i) if (e.model.v[i] && i != ida) vexp.insert(i);
        VF_CHECK(vids == vexp && vids.size() == s().live(0).size(), "oracle:collapse.vertices", "surviving vertex ids differ from 'all but the collapsed one'");
        // cells: exactly the expected ones, same orientation
        std::map<int, std::vector<int>> got;
        for (int c : s().live(3)) { auto t = cell_tuple(s(), c); std::vector<int> ids; for (int v : t) ids.push_back(e.vid(v)); VF_CHECK(!got.count(e.cid(c)), "oracle:collapse.cell-duplicate", "cell id " << e.cid(c) << " twice"); got[e.cid(c)] = ids; }
        for (auto &kv : expect) {
            auto it = got.find(kv.first);
            VF_CHECK(it != got.end(), "oracle:collapse.cell-lost", "cell id " << kv.first << " " << ivec(kv.second) << " (did not contain both ends) vanished [" << e.cfgclass() << "]");
            int par = perm_parity(kv.second, it->second);
            VF_CHECK(par >= 0, "oracle:collapse.cell-vertices", "cell id " << kv.first << " has vertex ids " << ivec(it->second) << " expected " << ivec(kv.second));
            VF_CHECK(par == 0, "oracle:collapse.cell-orientation", "cell id " << kv.first << " " << ivec(it->second) << " has the opposite orientation of " << ivec(kv.second));
        }
        VF_CHECK(got.size() == expect.size(), "oracle:collapse.cell-extra", got.size() << " cells after the collapse, expected " << expect.size());
        // vertex and cell property values follow their entities
        for (int v : s().live(0)) { size_t i = 0; for (auto &p : e.props) if (p->kind == 0) { VF_CHECK(p->get(v) == vprops[e.vid(v)][i], "oracle:collapse.vertex-property", p->label << " of vertex id " << e.vid(v)); ++i; }
            VF_CHECK(e.mesh.vertex(VertexHandle(v)) == Engine<TetK>::pos_for(e.vid(v)), "oracle:collapse.position", "vertex id " << e.vid(v)); }
        for (int c : s().live(3)) { size_t i = 0; for (auto &p : e.props) if (p->kind == 5) { VF_CHECK(p->get(c) == cprops[e.cid(c)][i], "oracle:collapse.cell-property", p->label << " of cell id " << e.cid(c)); ++i; } }
        resync();
        check_incidences(e.mesh, s());
        return true;
    }
    // after a collapse edge/face identities are re-established from the mesh (their values are unspecified)
    void resync() {
        Model &m = e.model;
        for (auto &x : m.e) x.live = false; for (auto &x : m.f) x.live = false;
        std::vector<char> vl(m.v.size(), 0); for (int v : s().live(0)) vl[e.vid(v)] = 1; m.v = vl;
        for (int x = 0; x < s().ne; ++x) if (!s().edel[x]) e.tag_edge(x, m.add_e(e.vid(s().ev[x][0]), e.vid(s().ev[x][1])));
        for (int f = 0; f < s().nf; ++f) if (!s().fdel[f]) { std::vector<int> ids; for (int h : s().fhe[f]) ids.push_back(e.heid(h)); e.tag_face(f, m.add_f(ids)); }
        for (auto &c : m.c) c.live = false;
        for (int c = 0; c < s().nc; ++c) if (!s().cdel[c]) { std::vector<int> ids; for (int hf : s().chf[c]) ids.push_back(e.hfid(hf)); m.c[e.cid(c)].hfs = ids; m.c[e.cid(c)].live = true; }
        m.pending[0] = (int)std::count(s().vdel.begin(), s().vdel.end(), 1); m.pending[1] = (int)std::count(s().edel.begin(), s().edel.end(), 1);
        m.pending[2] = (int)std::count(s().fdel.begin(), s().fdel.end(), 1); m.pending[3] = (int)std::count(s().cdel.begin(), s().cdel.end(), 1);
        for (auto &p : e.props) if (p->kind >= 1 && p->kind <= 4 && p.get() != e.hetag && p.get() != e.hftag) {
            p->shadow.clear();
            for (int i = 0; i < std::min<int>(e.n_of_pkind(p->kind), (int)p->size()); ++i) if (e.slot_live(p->kind, i)) p->shadow[e.slot_id(p->kind, i)] = p->get(i);
        }
        e.rescan();
    }
    // tet via vertices: the four needed halffaces must be free
    void add_tet_by_vertices() {
        if (!e.mesh.has_full_bottom_up_incidences() || !clean_complex()) return;
        auto lv = e.live_v();
        std::vector<int> v;
        // glue onto a free halfface, or fresh
        std::vector<int> free_hf; for (int hf = 0; hf < 2 * s().nf; ++hf) if (!s().fdel[hf >> 1] && s().hf_cells[hf].empty()) free_hf.push_back(hf);
        if (!free_hf.empty() && rng.chance(2, 3)) { v = s().hf_verts(rng.pick(free_hf)); std::rotate(v.begin(), v.begin() + rng.below(3), v.end()); }
        while (v.size() < 4) { int c = (!lv.empty() && rng.chance(1, 3)) ? rng.pick(lv) : e.op_add_vertex(); if (std::find(v.begin(), v.end(), c) == v.end()) v.push_back(c); }
        e.rescan();
        static const int F[4][3] = {{0, 1, 2}, {0, 2, 3}, {0, 3, 1}, {1, 3, 2}};
        for (auto &f : F) {   // every face on these vertices (either orientation) must have the needed side free
            std::vector<int> cyc{v[f[0]], v[f[1]], v[f[2]]};
            for (int hf = 0; hf < 2 * s().nf; ++hf) if (!s().fdel[hf >> 1] && is_rot(s().hf_verts(hf), cyc) && !s().hf_cells[hf].empty()) return;
        }
        std::vector<int> sv = sorted(v); for (int c : s().live(3)) { std::vector<int> cv; for (int hf : s().chf[c]) for (int x : s().hf_verts(hf)) cv.push_back(x); if (uniq(cv) == sv) return; }
        int nv0 = s().nv, ne0 = s().ne, nf0 = s().nf, nc0 = s().nc;
        int how = (int)rng.below(3); bool check = rng.chance(1, 2);
        CellHandle c;
        if (how == 0) { std::vector<VertexHandle> vh; for (int x : v) vh.emplace_back(x); c = e.mesh.add_cell(vh, check); }
        else c = e.mesh.add_cell(VertexHandle(v[0]), VertexHandle(v[1]), VertexHandle(v[2]), VertexHandle(v[3]), check);
        ctx.op(std::string(how == 0 ? "add_cell(vertices=" : "add_cell(v0..v3=") + ivec(v) + ",check=" + std::to_string(check) + ")->" + std::to_string(c.idx()));
        ctx.cnt.add("op.add_cell(vertices)");
        VF_CHECK(c.idx() == nc0, "oracle:tet.add_cell(v).handle", "returned " << c.idx() << " expected " << nc0);
        e.adopt_new(nv0, ne0, nf0, nc0); e.rescan();
        check_tet_shape(e.mesh, s());
        auto t = cell_tuple(s(), nc0);
        VF_CHECK(perm_parity(v, t) == 0, "oracle:tet.add_cell(v).orientation", "new cell lists " << ivec(t) << " which is not an orientation-preserving arrangement of " << ivec(v));
        std::vector<int> t3(t.begin(), t.begin() + 3), v3(v.begin(), v.begin() + 3);
        VF_CHECK(is_rot(v3, t3), "oracle:tet.add_cell(v).first-face", "first halfface " << ivec(t3) << " is not on the first three vertices " << ivec(v3));
        // no duplicate faces/edges were created: the lookups found the existing ones
        VF_CHECK(clean_complex(), "oracle:tet.add_cell(v).duplicates", "add_cell(vertices) created a duplicate edge/face instead of reusing the existing one");
    }
};

static CaseFn mk_c15(const Args &a) {
    int steps = (int)a.num("steps", a.tier == "thorough" ? 60 : 24);
    return [=](Ctx &ctx) {
        EngCfg g; g.chk_model = true; g.chk_props = true; g.allow_props = true; g.w_prop = 3; g.steps = 0; g.build_steps = 10;
        g.allow_set = false; g.allow_clear = false; g.fan_bias = 4; g.allow_toggle_bu = false; g.init_bu = 7; g.max_c = 12; g.allow_dups = false;
        g.init_mode = (int)(ctx.case_no % 4);
        Engine<TetK> e(ctx, g);
        TetDriver d(e);
        e.after_step = [&] { check_tet_shape(e.mesh, e.s); };
        e.run();
        for (int i = 0; i < steps; ++i) {
            int r = (int)ctx.rng.below(10);
            if (r < 3) { if (!d.try_collapse()) e.build_step(); }
            else if (r < 5) d.add_tet_by_vertices();
            else if (r < 7) e.build_step();
            else e.mutate_step();
            e.check_all();
            if (i % 4 == 0) { check_tet_orders(e.mesh, e.s); check_tet_labels(e.mesh, e.s, ctx.rng); }
        }
        check_tet_orders(e.mesh, e.s); check_tet_labels(e.mesh, e.s, ctx.rng);
    };
}
VF_REGISTER("C15", mk_c15);
} // namespace vf
