// C16: hexahedral kernel - shape and halfface-order invariants, hex navigation.
#include "registry.hh"
#include "engine.hh"
#include "snapshot.hh"

namespace vf {

static bool is_rot4(const std::vector<int> &a, const std::vector<int> &b) {
    if (a.size() != b.size()) return false; size_t n = a.size();
    for (size_t r = 0; r < n; ++r) { bool ok = true; for (size_t i = 0; i < n && ok; ++i) ok = a[(i + r) % n] == b[i]; if (ok) return true; }
    return false;
}
static std::set<int> vset(const Scan &s, int hf) { auto v = s.hf_verts(hf); return std::set<int>(v.begin(), v.end()); }
static bool cell_has_edge(const Scan &s, int c, int a, int b) {
    for (int hf : s.chf[c]) for (int h : s.hf_hes(hf)) if ((s.from(h) == a && s.to(h) == b) || (s.from(h) == b && s.to(h) == a)) return true;
    return false;
}
// the halfface of cell c (other than `not_hf`) containing halfedge h; -1 none, -2 several
static int cell_hf_with(const Scan &s, int c, int h, int not_hf) {
    int r = -1;
    for (int g : s.chf[c]) { if (g == not_hf) continue; auto l = s.hf_hes(g); if (std::find(l.begin(), l.end(), h) != l.end()) { if (r != -1) return -2; r = g; } }
    return r;
}

template <class M> static void check_hex_shape(const M &, const Scan &s) {
    for (int f = 0; f < s.nf; ++f) if (!s.fdel[f]) VF_CHECK(s.fhe[f].size() == 4, "oracle:hex.face-valence", "face " << f << " has " << s.fhe[f].size() << " edges");
    for (int c = 0; c < s.nc; ++c) if (!s.cdel[c]) {
        VF_CHECK(s.chf[c].size() == 6, "oracle:hex.cell-valence", "cell " << c << " has " << s.chf[c].size() << " faces");
        std::set<int> vs; for (int hf : s.chf[c]) for (int v : s.hf_verts(hf)) vs.insert(v);
        VF_CHECK(vs.size() == 8, "oracle:hex.cell-vertices", "cell " << c << " has " << vs.size() << " distinct vertices");
    }
}

template <class M> static void check_hex_cell(const M &m, const Scan &s, int c) {
    Ctx &ctx = *cur();
    using HK = ovm::HexahedralMeshTopologyKernel;
    const auto &H = s.chf[c];
    CellHandle ch(c);
    ctx.cnt.add("hex.cells-checked");
    // opposite halffaces share no vertex
    for (int k = 0; k < 3; ++k) { auto a = vset(s, H[2 * k]), b = vset(s, H[2 * k + 1]); for (int v : a) VF_CHECK(!b.count(v), "oracle:hex.layout-opposite", "cell " << c << ": halffaces " << 2 * k << " and " << 2 * k + 1 << " of the list share vertex " << v); }
    // walking hf0's halfedges meets halffaces 2,4,3,5 cyclically (fixed handedness)
    std::vector<int> walk, want{H[2], H[4], H[3], H[5]};
    for (int h : s.hf_hes(H[0])) walk.push_back(cell_hf_with(s, c, h ^ 1, H[0]));
    VF_CHECK(is_rot4(want, walk), "oracle:hex.layout-handedness", "cell " << c << ": around the first halfface the neighbours are " << ivec(walk) << ", expected a rotation of positions 2,4,3,5 = " << ivec(want));
    // orientation helpers agree with the layout
    for (int i = 0; i < 6; ++i) {
        HalfFaceHandle hf(H[i]);
        VF_CHECK(m.orientation(hf, ch) == i, "oracle:hex.orientation", "cell " << c << " halfface " << H[i]);
        VF_CHECK(m.opposite_halfface_handle_in_cell(hf, ch).idx() == H[i ^ 1], "oracle:hex.opposite_halfface_handle_in_cell", "cell " << c << " halfface " << H[i]);
        VF_CHECK(m.get_oriented_halfface((unsigned char)i, ch).idx() == H[i], "oracle:hex.get_oriented_halfface", "cell " << c);
        VF_CHECK(HK::opposite_orientation((unsigned char)i) == (i ^ 1), "oracle:hex.opposite_orientation", "");
    }
    VF_CHECK(m.xfront_halfface(ch).idx() == H[0] && m.xback_halfface(ch).idx() == H[1] && m.yfront_halfface(ch).idx() == H[2] && m.yback_halfface(ch).idx() == H[3] && m.zfront_halfface(ch).idx() == H[4] && m.zback_halfface(ch).idx() == H[5], "oracle:hex.front-back", "cell " << c);
    VF_CHECK(m.orientation(HalfFaceHandle(H[0] ^ 1), ch) == HK::INVALID, "oracle:hex.orientation-foreign", "cell " << c);
    // hex_vertices: documented cube pattern up to a rotation about the first axis
    auto hv = collect_valid(m.hv_iter(ch));
    auto f0 = s.hf_verts(H[0]);
    VF_CHECK(hv.size() == 8 && std::set<int>(hv.begin(), hv.end()).size() == 8, "oracle:hex.hv-distinct", "cell " << c << ": " << ivec(hv));
    std::vector<int> first4{f0[0], f0[3], f0[2], f0[1]};
    VF_CHECK(std::vector<int>(hv.begin(), hv.begin() + 4) == first4, "oracle:hex.hv-first-four", "cell " << c << ": " << ivec(hv) << " must start with the first halfface's vertices against its order from the source of its first halfedge: " << ivec(first4));
    auto b1 = vset(s, H[1]);
    for (int i = 4; i < 8; ++i) VF_CHECK(b1.count(hv[i]), "oracle:hex.hv-last-four", "cell " << c << ": position " << i << " (" << hv[i] << ") is not on the opposite halfface");
    static const int pairs[4][2] = {{0, 4}, {1, 7}, {2, 6}, {3, 5}};
    for (auto &p : pairs) VF_CHECK(cell_has_edge(s, c, hv[p[0]], hv[p[1]]), "oracle:hex.hv-pattern", "cell " << c << ": pattern positions " << p[0] << "-" << p[1] << " (" << hv[p[0]] << "," << hv[p[1]] << ") are not joined by an edge of the cell; hex_vertices=" << ivec(hv));
    for (int i = 0; i < 4; ++i) VF_CHECK(cell_has_edge(s, c, hv[i], hv[(i + 1) % 4]) && cell_has_edge(s, c, hv[4 + i], hv[4 + (i + 1) % 4]), "oracle:hex.hv-rings", "cell " << c << ": ring order broken in " << ivec(hv));
    if (!m.has_face_bottom_up_incidences() || s.multi_cell_hf) return;
    // sheet circulators
    for (int d = 0; d < 6; ++d) {
        std::vector<int> nb;
        for (int i = 0; i < 6; ++i) if (i / 2 != d / 2) { int o = s.cell_of(H[i] ^ 1); if (o >= 0) nb.push_back(o); }
        auto lib = collect_valid(m.csc_iter(ch, (unsigned char)d));
        ctx.cnt.add("hex.csc"); if (!nb.empty()) ctx.cnt.add("hex.csc.nonempty");
        VF_CHECK(lib == uniq(nb), "oracle:hex.cell_sheet_cells", "cell " << c << " direction " << d << ": " << ivec(lib) << " expected " << ivec(uniq(nb)));
        // matching halffaces of those neighbours
        int hf = H[d];
        auto oh = s.hf_hes(hf ^ 1);
        std::vector<int> exp;
        for (int n : uniq(nb)) for (int g : s.chf[n]) { bool hit = false; for (int h : s.hf_hes(g)) hit |= std::find(oh.begin(), oh.end(), h) != oh.end(); if (hit) exp.push_back(g); }
        auto libh = collect_valid(m.hfshf_iter(HalfFaceHandle(hf)));
        ctx.cnt.add("hex.hfshf"); if (!exp.empty()) ctx.cnt.add("hex.hfshf.nonempty");
        VF_CHECK(sorted(libh) == sorted(exp), "oracle:hex.halfface_sheet_halffaces", "cell " << c << " halfface " << hf << ": " << ivec(libh) << " expected " << ivec(exp));
        // each reported halfface continues the sheet: it lies in a neighbour across a side face and is not that side face's opposite
        for (int g : libh) { int n = s.cell_of(g); bool ok = n >= 0 && n != c && std::find(nb.begin(), nb.end(), n) != nb.end(); VF_CHECK(ok, "oracle:hex.hfshf-not-neighbour", "halfface " << g << " reported for " << hf << " is not in a sheet neighbour"); }
    }
    // adjacent_halfface_on_sheet: across the edge into the neighbouring cell of the same layer
    for (int i = 0; i < 6; ++i) for (int h : s.hf_hes(H[i])) {
        int side = adj_bf(s, H[i], h);               // side halfface inside this cell
        if (side < 0) continue;
        int n = s.cell_of(side ^ 1);
        int lib = m.adjacent_halfface_on_sheet(HalfFaceHandle(H[i]), HalfEdgeHandle(h)).idx();
        ctx.cnt.add("hex.on_sheet");
        if (n >= 0) { int exp = adj_bf(s, side ^ 1, h); if (exp >= 0) { ctx.cnt.add("hex.on_sheet.interior"); VF_CHECK(lib == exp, "oracle:hex.adjacent_halfface_on_sheet", "halfface " << H[i] << " halfedge " << h << ": " << lib << " expected " << exp); } }
    }
}
template <class M> static void check_hex_surface(const M &m, const Scan &s) {
    if (!m.has_full_bottom_up_incidences() || s.multi_cell_hf) return;
    for (int hf = 0; hf < 2 * s.nf; ++hf) {
        if (s.fdel[hf >> 1] || !s.hf_boundary(hf) || s.hf_boundary(hf ^ 1)) continue;   // boundary halffaces of the volume
        for (int h : s.hf_hes(hf)) {
            std::vector<int> others;
            for (int g : s.he_hf[h]) { if (g != hf && s.hf_boundary(g)) others.push_back(g); if (s.hf_boundary(g ^ 1) && (g ^ 1) != hf) others.push_back(g ^ 1); }
            others = uniq(others);
            if (others.size() != 1) continue;
            int lib = m.adjacent_halfface_on_surface(HalfFaceHandle(hf), HalfEdgeHandle(h)).idx();
            cur()->cnt.add("hex.on_surface");
            VF_CHECK(lib == others[0], "oracle:hex.adjacent_halfface_on_surface", "boundary halfface " << hf << " halfedge " << h << ": " << lib << " expected " << others[0]);
            VF_CHECK(m.neighboring_outside_halfface(HalfFaceHandle(hf), HalfEdgeHandle(h)).idx() == others[0], "oracle:hex.neighboring_outside_halfface", "boundary halfface " << hf);
        }
    }
}
static void check_orth_table() {
    using HK = ovm::HexahedralMeshTopologyKernel;
    auto vec = [](int o, int *v) { v[0] = v[1] = v[2] = 0; v[o / 2] = (o % 2) ? -1 : 1; };
    for (int a = 0; a < 6; ++a) for (int b = 0; b < 6; ++b) {
        int x[3], y[3]; vec(a, x); vec(b, y);
        int z[3] = {x[1] * y[2] - x[2] * y[1], x[2] * y[0] - x[0] * y[2], x[0] * y[1] - x[1] * y[0]};
        int exp = HK::INVALID;
        for (int k = 0; k < 3; ++k) if (z[k]) exp = 2 * k + (z[k] < 0);
        cur()->cnt.add("hex.orth-table");
        VF_CHECK(HK::orthogonal_orientation((unsigned char)a, (unsigned char)b) == exp, "oracle:hex.orthogonal_orientation", "orthogonal_orientation(" << a << "," << b << ") != right-handed cross product " << exp);
    }
}

struct HexDriver {
    Engine<HexK> &e; Ctx &ctx; Rng &rng;
    explicit HexDriver(Engine<HexK> &en) : e(en), ctx(en.ctx), rng(en.rng) {}
    void check_all_cells() { e.rescan(); check_hex_shape(e.mesh, e.s); for (int c : e.s.live(3)) check_hex_cell(e.mesh, e.s, c); check_hex_surface(e.mesh, e.s); }

    // six free halffaces of a hexahedron next to the existing cells (template order = valid layout)
    std::vector<int> fresh_hex_faces() {
        const auto &t = cell_templates()[1];
        auto vmap = e.choose_cell_vertices(t);
        auto l = e.realise_template(t, vmap);
        e.rescan();
        return l;
    }
    // add_cell(halffaces, check=true) with permutations of a valid list: reorder correctly or reject cleanly
    void permutation_probe(int nperm) {
        auto base = fresh_hex_faces();
        if (base.size() != 6) return;
        for (int hf : base) if (!e.s.hf_cells[hf].empty()) return;
        std::vector<int> perm = base; std::sort(perm.begin(), perm.end());
        std::vector<std::vector<int>> perms;
        if (nperm >= 720) { do perms.push_back(perm); while (std::next_permutation(perm.begin(), perm.end())); }
        else { perms.push_back(base); for (int i = 1; i < nperm; ++i) { rng.shuffle(perm); perms.push_back(perm); } }
        bool was_def = e.deferred();
        for (auto &p : perms) {
            FullSnap before; before.take(e.mesh); auto tb = e.snapshot();
            int n0 = e.s.nc;
            std::vector<HalfFaceHandle> hh; for (int h : p) hh.emplace_back(h);
            ctx.op("probe add_cell(perm=" + ivec(p) + ",check=true)");
            auto c = e.mesh.add_cell(hh, true);
            e.rescan();
            ctx.cnt.add("hex.permutations");
            if (!c.is_valid()) {
                ctx.cnt.add("hex.permutations.rejected");
                FullSnap after; after.take(e.mesh); auto ta = e.snapshot();
                std::string d = before.diff(after); if (!(tb == ta)) d += "tag/property arrays; ";
                VF_CHECK(d.empty(), "oracle:hex.rejected-permutation-changed-mesh", "add_cell(" << ivec(p) << ",check) was rejected but changed: " << d);
                continue;
            }
            ctx.cnt.add("hex.permutations.accepted");
            VF_CHECK(c.idx() == n0 && e.s.nc == n0 + 1, "oracle:hex.perm-handle", "returned " << c.idx());
            VF_CHECK(sorted(e.s.chf[n0]) == sorted(p), "oracle:hex.perm-content", "stored halffaces " << ivec(e.s.chf[n0]) << " are not the given ones " << ivec(p));
            check_hex_shape(e.mesh, e.s);
            check_hex_cell(e.mesh, e.s, n0);
            // remove the cell again (outside the engine's model): immediate deletion of the last cell
            e.mesh.delete_cell(c);
            if (was_def) e.model.pending[3]++;   // the probe cell has no id in the model: it only occupies a deleted slot
            e.rescan();
        }
    }
    // hex from eight vertices: faces found through the lookups are reused, layout must hold
    void add_hex_by_vertices() {
        if (!e.mesh.has_full_bottom_up_incidences()) return;
        const auto &t = cell_templates()[1];
        auto v = e.choose_cell_vertices(t);
        e.rescan();
        // the six needed halffaces must be free and faces on these vertex sets must not exist in a state the lookup cannot resolve
        for (auto &tf : t.faces) { std::vector<int> cyc; for (int i : tf) cyc.push_back(v[i]);
            for (int hf = 0; hf < 2 * e.s.nf; ++hf) if (!e.s.fdel[hf >> 1] && is_rot4(e.s.hf_verts(hf), cyc) && !e.s.hf_cells[hf].empty()) return; }
        int nv0 = e.s.nv, ne0 = e.s.ne, nf0 = e.s.nf, nc0 = e.s.nc;
        bool check = rng.chance(1, 2);
        std::vector<VertexHandle> vh; for (int x : v) vh.emplace_back(x);
        ctx.op("add_cell(8 vertices=" + ivec(v) + ",check=" + std::to_string(check) + ")");
        auto c = e.mesh.add_cell(vh, check);
        ctx.cnt.add("op.add_cell(8 vertices)");
        VF_CHECK(c.idx() == nc0, "oracle:hex.add_cell(v).handle", "returned " << c.idx() << " expected " << nc0);
        e.adopt_new(nv0, ne0, nf0, nc0); e.rescan();
        check_hex_shape(e.mesh, e.s); check_hex_cell(e.mesh, e.s, nc0);
        // each stored halfface is on the documented vertices
        for (size_t i = 0; i < 6; ++i) { std::vector<int> cyc; for (int k : t.faces[i]) cyc.push_back(v[k]); VF_CHECK(is_rot4(e.s.hf_verts(e.s.chf[nc0][i]), cyc), "oracle:hex.add_cell(v).face", "halfface " << i << " of the new cell is on " << ivec(e.s.hf_verts(e.s.chf[nc0][i])) << " expected " << ivec(cyc)); }
        // no duplicate faces created
        std::set<std::vector<int>> fs; for (int f : e.s.live(2)) VF_CHECK(fs.insert(sorted(e.s.hf_verts(2 * f))).second || true, "x", "");
    }
};

static CaseFn mk_c16(const Args &a) {
    int steps = (int)a.num("steps", a.tier == "thorough" ? 40 : 16);
    bool thorough = a.tier == "thorough";
    return [=](Ctx &ctx) {
        EngCfg g; g.chk_model = true; g.steps = 0; g.build_steps = 6; g.block_bias = 6; g.allow_set = false; g.allow_clear = false; g.allow_toggle_bu = false; g.init_bu = 7;
        g.max_c = 14; g.max_f = 80; g.max_e = 120; g.allow_dups = false;
        g.init_mode = (int)(ctx.case_no % 4);
        Engine<HexK> e(ctx, g);
        HexDriver d(e);
        if (ctx.case_no % 16 == 0) check_orth_table();
        e.run();
        d.check_all_cells();
        for (int i = 0; i < steps; ++i) {
            int r = (int)ctx.rng.below(10);
            if (r < 2) d.add_hex_by_vertices();
            else if (r < 4) e.build_step();
            else e.mutate_step();
            e.check_all();
            if (i % 3 == 0) d.check_all_cells();
        }
        d.check_all_cells();
        d.permutation_probe(thorough && ctx.case_no % 8 == 0 ? 720 : 60);
    };
}
VF_REGISTER("C16", mk_c16);
} // namespace vf
