// C19: vector algebra and geometric queries match their defining formulas.
#include "registry.hh"
#include "meshwrap.hh"
#include <OpenVolumeMesh/Attribs/NormalAttrib.hh>
#include <cmath>
#include <limits>
#include <type_traits>

namespace vf {
using ovm::Geometry::VectorT;

template <class S> struct Sc { static const char *name(); };
template <> const char *Sc<int>::name() { return "int"; }
template <> const char *Sc<unsigned>::name() { return "unsigned"; }
template <> const char *Sc<float>::name() { return "float"; }
template <> const char *Sc<double>::name() { return "double"; }

template <class S, int D> std::string vstr(const VectorT<S, D> &v) { std::ostringstream o; o.precision(17); o << "("; for (int i = 0; i < D; ++i) o << (i ? "," : "") << v[i]; o << ")"; return o.str(); }

template <class S> bool close(S lib, long double ref, long double scale) {
    if constexpr (std::is_integral<S>::value) { return (long double)lib == ref; }
    else {
        if (std::isnan((long double)lib) || std::isnan(ref)) return std::isnan((long double)lib) && std::isnan(ref);
        if (std::isinf(ref) || std::isinf((long double)lib)) return (long double)lib == ref || std::fabs(ref) > (long double)std::numeric_limits<S>::max();
        long double tol = 8 * (long double)std::numeric_limits<S>::epsilon() * scale + 4 * (long double)std::numeric_limits<S>::denorm_min();
        return std::fabs((long double)lib - ref) <= tol;
    }
}
#define C19(cond, what, ...) do { cur()->cnt.add("vec.predicates"); if (!(cond)) VF_FAIL(std::string("oracle:vec.") + what, Sc<S>::name() << D << " " << what << ": " << __VA_ARGS__); } while (0)

template <class S, int D> void check_pair(const VectorT<S, D> &a, const VectorT<S, D> &b, S s) {
    using V = VectorT<S, D>;
    constexpr bool I = std::is_integral<S>::value;
    long double A[D], B[D];
    for (int i = 0; i < D; ++i) { A[i] = a[i]; B[i] = b[i]; }
    auto lim = [](long double x) -> long double { if constexpr (std::is_same<S, unsigned>::value) { long double m = 4294967296.0L; x = std::fmod(x, m); if (x < 0) x += m; } return x; };
    V sum = a + b, dif = a - b, mul = a * b, neg = -a, sc = a * s, sc2 = s * a;
    for (int i = 0; i < D; ++i) {
        C19(close<S>(sum[i], lim(A[i] + B[i]), std::fabs(A[i]) + std::fabs(B[i])), "operator+", vstr(a) << "+" << vstr(b) << "=" << vstr(sum));
        C19(close<S>(dif[i], lim(A[i] - B[i]), std::fabs(A[i]) + std::fabs(B[i])), "operator-", vstr(a) << "-" << vstr(b) << "=" << vstr(dif));
        C19(close<S>(mul[i], lim(A[i] * B[i]), std::fabs(A[i] * B[i])), "operator*(vec)", vstr(a) << "*" << vstr(b) << "=" << vstr(mul));
        C19(close<S>(neg[i], lim(-A[i]), 0), "unary-minus", vstr(a) << " -> " << vstr(neg));
        C19(close<S>(sc[i], lim(A[i] * (long double)s), std::fabs(A[i] * (long double)s)) && sc2[i] == sc[i], "operator*(scalar)", vstr(a) << "*" << s << "=" << vstr(sc));
    }
    { V t = a; t += b; C19(t == sum, "operator+=", vstr(a)); t = a; t -= b; C19(t == dif, "operator-=", vstr(a)); t = a; t *= b; C19(t == mul, "operator*=(vec)", vstr(a)); t = a; t *= s; C19(t == sc, "operator*=(scalar)", vstr(a)); }
    bool bnz = true; for (int i = 0; i < D; ++i) bnz &= b[i] != S(0);
    if (bnz) { V q = a / b; V t = a; t /= b; for (int i = 0; i < D; ++i) { long double r = I ? std::trunc(A[i] / B[i]) : A[i] / B[i]; C19(close<S>(q[i], r, std::fabs(r)) && t[i] == q[i], "operator/(vec)", vstr(a) << "/" << vstr(b) << "=" << vstr(q)); } }
    if (s != S(0)) { V q = a / s; V t = a; t /= s; for (int i = 0; i < D; ++i) { long double r = I ? std::trunc(A[i] / (long double)s) : A[i] / (long double)s; C19(close<S>(q[i], r, std::fabs(r)) && t[i] == q[i], "operator/(scalar)", vstr(a) << "/" << s << "=" << vstr(q)); } }
    // comparison and lexicographic order
    bool eq = true, lt = false; for (int i = 0; i < D; ++i) eq &= a[i] == b[i];
    for (int i = 0; i < D; ++i) { if (a[i] < b[i]) { lt = true; break; } if (b[i] < a[i]) break; }
    C19((a == b) == eq && (a != b) == !eq, "operator==", vstr(a) << " vs " << vstr(b));
    C19((a < b) == lt, "operator<", vstr(a) << " < " << vstr(b) << " library " << (a < b) << " lexicographic " << lt);
    // dot, cross, norms
    long double dot = 0, sq = 0, dscale = 0; for (int i = 0; i < D; ++i) { dot += A[i] * B[i]; dscale += std::fabs(A[i] * B[i]); sq += A[i] * A[i]; }
    C19(close<S>((a | b), lim(dot), dscale) && (a | b) == a.dot(b) && ovm::Geometry::dot(a, b) == (a | b), "dot", vstr(a) << "|" << vstr(b) << "=" << (a | b) << " expected " << (double)dot);
    C19(close<S>(a.sqrnorm(), lim(sq), sq), "sqrnorm", vstr(a) << " -> " << a.sqrnorm());
    if constexpr (D == 3) {
        auto c = a % b; auto c2 = a.cross(b); auto c3 = ovm::Geometry::cross(a, b);
        long double R[3] = {A[1] * B[2] - A[2] * B[1], A[2] * B[0] - A[0] * B[2], A[0] * B[1] - A[1] * B[0]};
        long double Rs[3] = {std::fabs(A[1] * B[2]) + std::fabs(A[2] * B[1]), std::fabs(A[2] * B[0]) + std::fabs(A[0] * B[2]), std::fabs(A[0] * B[1]) + std::fabs(A[1] * B[0])};
        for (int i = 0; i < 3; ++i) C19(close<S>(c[i], lim(R[i]), Rs[i]) && c2[i] == c[i] && c3[i] == c[i], "cross", vstr(a) << "%" << vstr(b) << "=" << vstr(c));
    }
    // squares of tiny components underflow in the scalar type itself: such vectors are excluded from the norm checks
    bool tiny = false;
    if constexpr (!I) { long double lo = std::sqrt((long double)std::numeric_limits<S>::min()) * 1e4L; for (int i = 0; i < D; ++i) tiny |= (A[i] != 0 && std::fabs(A[i]) < lo); }
    if (!tiny) {
        auto n = a.norm(); using NT = decltype(n);
        C19(close<NT>(n, std::sqrt(sq), std::sqrt(sq)) && a.length() == n, "norm", vstr(a) << " -> " << n);
    }
    if constexpr (!I) {
        long double nn = std::sqrt(sq);
        if (!tiny && nn > 0 && std::isfinite((double)nn) && nn > 1e-30L) {
            V u = a.normalized(); V w = a; w.normalize(); V x = a; x.normalize_cond();
            for (int i = 0; i < D; ++i) C19(close<S>(u[i], A[i] / nn, 2) && w[i] == u[i] && x[i] == u[i], "normalize", vstr(a) << " -> " << vstr(u));
        }
        if (sq == 0) { V x = a; x.normalize_cond(); C19(x == a, "normalize_cond(zero)", vstr(a)); }
    }
    // reductions
    long double mx = A[0], mn = A[0], mxa = std::fabs(A[0]), mna = std::fabs(A[0]), l1 = 0, su = 0;
    for (int i = 0; i < D; ++i) { mx = std::max(mx, A[i]); mn = std::min(mn, A[i]); mxa = std::max(mxa, std::fabs(A[i])); mna = std::min(mna, std::fabs(A[i])); l1 += std::fabs(A[i]); su += A[i]; }
    C19((long double)a.max() == mx && (long double)a.min() == mn, "max/min", vstr(a));
    if constexpr (!std::is_same<S, unsigned>::value) {
        C19((long double)a.max_abs() == mxa && (long double)a.min_abs() == mna && a.l8_norm() == a.max_abs(), "max_abs/min_abs", vstr(a) << " -> " << a.max_abs() << "," << a.min_abs());
        C19(close<S>(a.l1_norm(), l1, l1), "l1_norm", vstr(a) << " -> " << a.l1_norm() << " expected the sum of absolute values " << (double)l1);
        C19(close<S>(a.mean_abs(), I ? std::trunc(l1 / D) : l1 / D, l1), "mean_abs", vstr(a) << " -> " << a.mean_abs());
    }
    C19(close<S>(a.mean(), I ? std::trunc(lim(su) / D) : su / D, l1), "mean", vstr(a) << " -> " << a.mean() << " expected " << (double)(su / D));
    // minimize / maximize
    V mi = a; mi.minimize(b); V ma = a; ma.maximize(b); V mi2 = a; bool rmi = mi2.minimized(b); V ma2 = a; bool rma = ma2.maximized(b);
    bool dec = false, inc = false, alllt = true, allgt = true;
    for (int i = 0; i < D; ++i) {
        C19(mi[i] == std::min(a[i], b[i]) && ma[i] == std::max(a[i], b[i]) && mi2[i] == mi[i] && ma2[i] == ma[i], "minimize/maximize", vstr(a) << "," << vstr(b));
        dec |= b[i] < a[i]; inc |= b[i] > a[i]; alllt &= a[i] < b[i]; allgt &= a[i] > b[i];
    }
    C19((!dec || rmi) && (!alllt || !rmi) && (!inc || rma) && (!allgt || !rma), "minimized/maximized-flag", vstr(a) << "," << vstr(b) << " flags " << rmi << rma);
    C19(a.min(b) == mi && a.max(b) == ma, "min(v)/max(v)", vstr(a));
    // conversions and streams
    { VectorT<double, D> d(a); V back(d); VectorT<double, D> d2; d2 = a; for (int i = 0; i < D; ++i) C19((long double)d[i] == A[i] && d2[i] == d[i] && back[i] == a[i], "conversion", vstr(a)); }
    { std::ostringstream o; o.precision(std::numeric_limits<S>::max_digits10); o << a; std::istringstream is(o.str()); V r; is >> r; bool same = true; for (int i = 0; i < D; ++i) same &= (r[i] == a[i]) || (a[i] != a[i]);
      C19(same && !is.fail(), "stream-roundtrip", vstr(a) << " printed as '" << o.str() << "' read back " << vstr(r)); }
    { V x = a, y = b; swap(x, y); C19(x == b && y == a, "swap", vstr(a)); V z = V::vectorized(s); for (int i = 0; i < D; ++i) C19(z[i] == s, "vectorized", s); V e(s); C19(e == z, "scalar-ctor", s); }
}

template <class S> S special(Rng &r) {
    if constexpr (std::is_integral<S>::value) { if constexpr (std::is_signed<S>::value) return (S)((int)r.below(2001) - 1000); else return (S)r.below(2001); }
    else {
        static const double sp[] = {0.0, -0.0, 1.0, -1.0, 0.5, 3.0, 1e-310, -1e-310, 4.9e-324, 1e-40, 1e17, -1e17, 1e-17, 2.5, 1.0 / 3.0, 1e150};
        int k = (int)r.below(24);
        double v = k < 16 ? sp[k] : (r.unit() - 0.5) * std::ldexp(1.0, (int)r.below(60) - 30);
        if (std::is_same<S, float>::value && std::fabs(v) > 1e17) v = 1e17;
        return (S)v;
    }
}
template <class S, int D> void lattice_case(Ctx &ctx, long long chunk, long long nchunks) {
    // exhaustive over the lattice {-3..3}^D (signed) / {0..6}^D (unsigned): all ordered pairs, split into chunks by first vector
    int base = std::is_signed<S>::value ? -3 : 0;
    long long n = 1; for (int i = 0; i < D; ++i) n *= 7;
    auto mk = [&](long long k) { VectorT<S, D> v; for (int i = 0; i < D; ++i) { v[i] = (S)(base + (int)(k % 7)); k /= 7; } return v; };
    long long per = (n + nchunks - 1) / nchunks, lo = chunk * per, hi = std::min(n, lo + per), pairs = 0;
    for (long long i = lo; i < hi; ++i) { auto a = mk(i); for (long long j = 0; j < n; ++j) { check_pair<S, D>(a, mk(j), (S)(base + (int)((i + j) % 7))); ++pairs; } }
    ctx.cnt.add("vec.pairs", pairs); ctx.cnt.add(std::string("vec.lattice.") + Sc<S>::name() + std::to_string(D), pairs);
    ctx.sample = std::string("lattice ") + Sc<S>::name() + std::to_string(D) + ": first vectors #" + std::to_string(lo) + ".." + std::to_string(hi) + " x all " + std::to_string(n) + " second vectors";
}
template <class S, int D> void random_case(Ctx &ctx, int npairs) {
    for (int k = 0; k < npairs; ++k) { VectorT<S, D> a, b; for (int i = 0; i < D; ++i) { a[i] = special<S>(ctx.rng); b[i] = special<S>(ctx.rng); } if (k % 7 == 0) b = a; if (k % 11 == 0) for (int i = 1; i < D; ++i) a[i] = a[0];
        check_pair<S, D>(a, b, special<S>(ctx.rng)); }
    ctx.cnt.add("vec.pairs", npairs); ctx.cnt.add(std::string("vec.random.") + Sc<S>::name() + std::to_string(D), npairs);
    ctx.sample = std::string("random+special values ") + Sc<S>::name() + std::to_string(D);
}
#undef C19

// mixed scalar types: VectorT<A> op VectorT<B> and VectorT<A> op B. The component-wise definition is the scalar C++
// expression on the components (usual arithmetic conversions, result converted to the declared result type).
template <class A, class B, int D> void mixed_case(Ctx &ctx, int npairs) {
    using C = decltype(std::declval<A>() * std::declval<B>());
    Rng &rng = ctx.rng;
    constexpr bool AU = std::is_same<A, unsigned>::value, CF = std::is_floating_point<C>::value;
    std::string nm = std::string(Sc<A>::name()) + "x" + Sc<B>::name() + std::to_string(D);
#define MX(cond, what, ...) do { cur()->cnt.add("vec.predicates"); if (!(cond)) VF_FAIL(std::string("oracle:vec.mixed.") + what, nm << " " << what << ": " << __VA_ARGS__); } while (0)
    for (int k = 0; k < npairs; ++k) {
        bool exact = k % 2 == 0;   // exact: every intermediate value is representable in float, so any evaluation order gives the same result
        auto gen = [&](auto tag, bool nonneg) { using T = decltype(tag);
            if constexpr (std::is_same<T, unsigned>::value) return (T)rng.below(7);
            else if constexpr (std::is_same<T, int>::value) return (T)(nonneg ? (int)rng.below(7) : (int)rng.below(13) - 6);
            else { double v = exact ? ((double)rng.below(129) - (nonneg ? 0 : 64)) / 8.0 : (rng.unit() - (nonneg ? 0 : 0.5)) * 16; if (std::fabs(v) < 0.01) v = 0.5; return (T)v; } };
        VectorT<A, D> a; VectorT<B, D> b;
        for (int i = 0; i < D; ++i) { a[i] = gen(A(), AU); b[i] = gen(B(), AU); }
        B s = gen(B(), AU);
        // dot
        auto d = a | b; static_assert(std::is_same<decltype(d), C>::value, "dot product has the common type");
        C e = C(a[0]) * C(b[0]); long double ld = (long double)a[0] * (long double)b[0], sc = std::fabs(ld);
        for (int i = 1; i < D; ++i) { e = e + C(a[i]) * C(b[i]); long double t = (long double)a[i] * (long double)b[i]; ld += t; sc += std::fabs(t); }
        bool ok = exact || !CF ? d == e : std::fabs((long double)d - ld) <= 8 * (long double)std::numeric_limits<C>::epsilon() * sc;
        MX(ok && a.dot(b) == d, "dot", vstr(a) << "|" << vstr(b) << "=" << (long double)d << " expected " << (long double)e);
        if constexpr (D == 3) {
            auto c = a % b; auto c2 = a.cross(b);
            static const int I1[3] = {1, 2, 0}, I2[3] = {2, 0, 1};
            for (int i = 0; i < 3; ++i) {
                auto ei = a[I1[i]] * b[I2[i]] - a[I2[i]] * b[I1[i]];
                long double li = (long double)a[I1[i]] * (long double)b[I2[i]] - (long double)a[I2[i]] * (long double)b[I1[i]], si = std::fabs((long double)a[I1[i]] * (long double)b[I2[i]]) + std::fabs((long double)a[I2[i]] * (long double)b[I1[i]]);
                bool okc = exact || !CF ? c[i] == ei : std::fabs((long double)c[i] - li) <= 8 * (long double)std::numeric_limits<C>::epsilon() * si;
                MX(okc && c2[i] == c[i], "cross", vstr(a) << "%" << vstr(b) << " component " << i << " = " << (long double)c[i] << " expected " << (long double)ei);
            }
        }
        // component-wise vector and scalar operations: result type VectorT<A>
        VectorT<B, D> bd = b; for (int i = 0; i < D; ++i) if (bd[i] == B(0)) bd[i] = B(1);   // divisors are never zero
        B sd = s == B(0) ? B(2) : s;
        VectorT<A, D> sum = a + b, mul = a * b, quo = a / bd, scm = a * s, scq = a / sd;
        VectorT<A, D> t1 = a, t2 = a, t3 = a, t4 = a, t5 = a; t1 += b; t2 *= b; t3 /= bd; t4 *= s; t5 /= sd;
        for (int i = 0; i < D; ++i) {
            A r = a[i]; r += b[i]; MX(sum[i] == r && t1[i] == r, "operator+", vstr(a) << "+" << vstr(b) << "=" << vstr(sum));
            r = a[i]; r *= b[i]; MX(mul[i] == r && t2[i] == r, "operator*(vec)", vstr(a) << "*" << vstr(b) << "=" << vstr(mul));
            r = a[i]; r /= bd[i]; MX(quo[i] == r && t3[i] == r, "operator/(vec)", vstr(a) << "/" << vstr(bd) << "=" << vstr(quo));
            r = a[i]; r *= s; MX(scm[i] == r && t4[i] == r, "operator*(scalar)", vstr(a) << "*" << (long double)s << "=" << vstr(scm));
            r = a[i]; r /= sd; MX(scq[i] == r && t5[i] == r, "operator/(scalar)", vstr(a) << "/" << (long double)sd << "=" << vstr(scq));
        }
        if constexpr (!AU) { VectorT<A, D> dif = a - b, t6 = a; t6 -= b; for (int i = 0; i < D; ++i) { A r = a[i]; r -= b[i]; MX(dif[i] == r && t6[i] == r, "operator-", vstr(a) << "-" << vstr(b) << "=" << vstr(dif)); } }
        // converting construction / vector_cast keep the component-wise conversion
        { VectorT<B, D> conv(a); VectorT<B, D> asg; asg = VectorT<B, D>(a); for (int i = 0; i < D; ++i) MX(conv[i] == (B)a[i] && asg[i] == (B)a[i], "conversion", vstr(a) << " -> " << vstr(conv)); }
    }
#undef MX
    ctx.cnt.add("vec.pairs", npairs); ctx.cnt.add("vec.mixed-pairs", npairs); ctx.cnt.add("vec.mixed." + nm, npairs);
    ctx.sample = "mixed scalar types " + nm;
}

static CaseFn mk_c19vec(const Args &a) {
    bool thorough = a.tier == "thorough";
    return [=](Ctx &ctx) {
        long long c = ctx.case_no;
        int combo = (int)(c % 12), sub = (int)(c / 12);
        int npairs = thorough ? 40000 : 4000;
        // even sub-cases: lattice chunks; odd: random/special values
        bool lattice = (sub % 2 == 0) && combo < 6;   // lattices for int / unsigned
        long long nch = thorough ? 49 : 7, chunk = (sub / 2) % nch;
        if (sub % 4 == 3) {   // mixed scalar types: the 12 ordered pairs of distinct scalar types, dimension cycling with the sub-case
            int dsel = (sub / 4) % 3, np = npairs / 2;
#define MRUN(A, B) do { if (dsel == 0) mixed_case<A, B, 2>(ctx, np); else if (dsel == 1) mixed_case<A, B, 3>(ctx, np); else mixed_case<A, B, 4>(ctx, np); } while (0)
            switch (combo) {
            case 0: MRUN(int, unsigned); break; case 1: MRUN(int, float); break; case 2: MRUN(int, double); break;
            case 3: MRUN(unsigned, int); break; case 4: MRUN(unsigned, float); break; case 5: MRUN(unsigned, double); break;
            case 6: MRUN(float, int); break; case 7: MRUN(float, unsigned); break; case 8: MRUN(float, double); break;
            case 9: MRUN(double, int); break; case 10: MRUN(double, unsigned); break; default: MRUN(double, float); break;
            }
#undef MRUN
            ctx.fold((uint64_t)c); return;
        }
#define RUN(S, D) do { if (lattice) { if (D == 4 && !thorough) { lattice_case<S, D>(ctx, (sub / 2) % 343, 343); } else lattice_case<S, D>(ctx, chunk % nch, nch); } else random_case<S, D>(ctx, npairs); } while (0)
        switch (combo) {
        case 0: RUN(int, 2); break; case 1: RUN(int, 3); break; case 2: RUN(int, 4); break;
        case 3: RUN(unsigned, 2); break; case 4: RUN(unsigned, 3); break; case 5: RUN(unsigned, 4); break;
        case 6: RUN(float, 2); break; case 7: RUN(float, 3); break; case 8: RUN(float, 4); break;
        case 9: RUN(double, 2); break; case 10: RUN(double, 3); break; default: RUN(double, 4); break;
        }
#undef RUN
        ctx.fold((uint64_t)c);
    };
}
VF_REGISTER("C19:vec", mk_c19vec);

// ------------------------------------------------------------------------------------------ geometry kernel
static bool vclose(const Vec3d &a, const long double *r, long double scale) {
    for (int i = 0; i < 3; ++i) { if (std::isnan(a[i]) || std::isnan((double)r[i])) { if (!(std::isnan(a[i]) && std::isnan((double)r[i]))) return false; continue; }
        if (std::fabs((long double)a[i] - r[i]) > 64 * 2.2e-16L * scale + 1e-300L) return false; }
    return true;
}
static CaseFn mk_c19geo(const Args &) {
    return [=](Ctx &ctx) {
        Rng &rng = ctx.rng;
        XMesh<PolyK> m;
        // random mesh with generated positions: tets, prisms and free polygons
        int nv = 6 + (int)rng.below(8);
        auto coord = [&] { int k = (int)rng.below(10); return k == 0 ? 0.0 : k == 1 ? 1e-9 * rng.unit() : k == 2 ? 1e6 * (rng.unit() - 0.5) : 10 * (rng.unit() - 0.5); };
        for (int i = 0; i < nv; ++i) m.add_vertex(Vec3d(coord(), coord(), coord()));
        std::vector<int> vs(nv); for (int i = 0; i < nv; ++i) vs[i] = i;
        int ncell = (int)rng.below(4);
        for (int c = 0; c < ncell; ++c) {
            rng.shuffle(vs);
            std::vector<VertexHandle> v4{VertexHandle(vs[0]), VertexHandle(vs[1]), VertexHandle(vs[2]), VertexHandle(vs[3])};
            static const int F[4][3] = {{0, 1, 2}, {0, 2, 3}, {0, 3, 1}, {1, 3, 2}};
            std::vector<HalfFaceHandle> hfs; bool ok = true;
            for (auto &f : F) { std::vector<VertexHandle> t{v4[f[0]], v4[f[1]], v4[f[2]]}; auto hf = m.find_halfface(t); if (!hf.is_valid()) hf = m.halfface_handle(m.add_face(t), 0); if (m.incident_cell(hf).is_valid()) ok = false; hfs.push_back(hf); }
            if (ok) m.add_cell(hfs);
        }
        // cells whose vertices lie in different numbers of faces: pyramids, prisms, a wedge over a pentagon
        int nother = (int)rng.below(3);
        for (int c = 0; c < nother; ++c) {
            rng.shuffle(vs);
            static const std::vector<std::vector<std::vector<int>>> SH = {
                {{0, 3, 2, 1}, {0, 1, 4}, {1, 2, 4}, {2, 3, 4}, {3, 0, 4}},                       // square pyramid
                {{0, 2, 1}, {3, 4, 5}, {0, 1, 4, 3}, {1, 2, 5, 4}, {2, 0, 3, 5}},                 // prism
                {{0, 4, 3, 2, 1}, {0, 1, 5}, {1, 2, 5}, {2, 3, 5}, {3, 4, 5}, {4, 0, 5}},         // pentagonal pyramid
                {{0, 1, 2}, {0, 2, 3}, {0, 3, 4}, {0, 4, 1}, {5, 2, 1}, {5, 3, 2}, {5, 4, 3}, {5, 1, 4}}};  // octahedron
            const auto &sh = SH[rng.below(SH.size())];
            int need = 0; for (auto &f : sh) for (int x : f) need = std::max(need, x + 1);
            if (need > nv) continue;
            std::vector<HalfFaceHandle> hfs; bool ok = true;
            for (auto &f : sh) { std::vector<VertexHandle> t; for (int x : f) t.emplace_back(vs[x]); auto hf = m.find_halfface(t); if (!hf.is_valid()) hf = m.halfface_handle(m.add_face(t), 0);
                if (m.incident_cell(hf).is_valid()) ok = false; hfs.push_back(hf); }
            if (ok) { m.add_cell(hfs); ctx.cnt.add("geo.cells.non-simplicial"); }
        }
        int nfree = 1 + (int)rng.below(4);
        for (int f = 0; f < nfree; ++f) { rng.shuffle(vs); int k = 3 + (int)rng.below(4); std::vector<VertexHandle> t; for (int i = 0; i < k && i < nv; ++i) t.emplace_back(vs[i]); m.add_face(t); }
        Scan s; s.build(m);
        auto P = [&](int v, long double *o) { const auto &p = m.vertex(VertexHandle(v)); for (int i = 0; i < 3; ++i) o[i] = p[i]; };
        for (int h = 0; h < 2 * s.ne; ++h) {
            long double a[3], b[3], d[3], len = 0, sc = 0; P(s.from(h), a); P(s.to(h), b);
            for (int i = 0; i < 3; ++i) { d[i] = b[i] - a[i]; len += d[i] * d[i]; sc = std::max(sc, std::fabs(a[i]) + std::fabs(b[i])); }
            ctx.cnt.add("geo.halfedges");
            VF_CHECK(vclose(m.vector(HalfEdgeHandle(h)), d, sc), "oracle:geo.vector(he)", "halfedge " << h);
            VF_CHECK(std::fabs((long double)m.length(HalfEdgeHandle(h)) - std::sqrt(len)) <= 1e-13L * (sc + 1e-300L) * 8, "oracle:geo.length(he)", "halfedge " << h);
            if ((h & 1) == 0) {
                long double bc[3]; for (int i = 0; i < 3; ++i) bc[i] = 0.5L * a[i] + 0.5L * b[i];
                VF_CHECK(vclose(m.vector(EdgeHandle(h >> 1)), d, sc) && vclose(m.barycenter(EdgeHandle(h >> 1)), bc, sc), "oracle:geo.edge", "edge " << (h >> 1));
                VF_CHECK(std::fabs((long double)m.length(EdgeHandle(h >> 1)) - std::sqrt(len)) <= 1e-13L * (sc + 1e-300L) * 8, "oracle:geo.length(e)", "edge " << (h >> 1));
            }
        }
        ovm::NormalAttrib<XMesh<PolyK>> na(m);
        na.update_vertex_normals();
        std::vector<std::array<long double, 3>> fn(2 * s.nf);
        for (int f = 0; f < s.nf; ++f) {
            auto vsf = s.hf_verts(2 * f); int k = (int)vsf.size();
            long double bc[3] = {0, 0, 0}, sc = 0;
            for (int v : vsf) { long double p[3]; P(v, p); for (int i = 0; i < 3; ++i) { bc[i] += p[i]; sc += std::fabs(p[i]); } }
            for (int i = 0; i < 3; ++i) bc[i] /= k;
            ctx.cnt.add("geo.faces");
            VF_CHECK(vclose(m.barycenter(FaceHandle(f)), bc, sc), "oracle:geo.barycenter(f)", "face " << f);
            for (int sd = 0; sd < 2; ++sd) {
                auto hes = s.hf_hes(2 * f + sd);
                long double p1[3], p2[3], p3[3]; P(s.from(hes[0]), p1); P(s.to(hes[0]), p2); P(s.to(hes[1]), p3);
                long double u[3], w[3]; for (int i = 0; i < 3; ++i) { u[i] = p2[i] - p1[i]; w[i] = p3[i] - p2[i]; }
                long double n[3] = {u[1] * w[2] - u[2] * w[1], u[2] * w[0] - u[0] * w[2], u[0] * w[1] - u[1] * w[0]};
                long double nl = std::sqrt(n[0] * n[0] + n[1] * n[1] + n[2] * n[2]);
                long double ul = std::sqrt(u[0] * u[0] + u[1] * u[1] + u[2] * u[2]), wl = std::sqrt(w[0] * w[0] + w[1] * w[1] + w[2] * w[2]);
                bool well = nl > 1e-6L * ul * wl && nl > 1e-200L;   // well-conditioned cross product
                for (int i = 0; i < 3; ++i) n[i] /= nl;
                fn[2 * f + sd] = {n[0], n[1], n[2]};
                if (well) { ctx.cnt.add("geo.normals"); VF_CHECK(vclose(m.normal(HalfFaceHandle(2 * f + sd)), n, 1e4), "oracle:geo.normal", "halfface " << 2 * f + sd << " library " << vstr(m.normal(HalfFaceHandle(2 * f + sd)))); }
                if (well && sd == 0) VF_CHECK(vclose(na[FaceHandle(f)], n, 1e4), "oracle:geo.NormalAttrib.face", "face " << f);
            }
            if (k == 3) {
                auto n0 = m.normal(HalfFaceHandle(2 * f)), n1 = m.normal(HalfFaceHandle(2 * f + 1));
                long double neg[3] = {-n0[0], -n0[1], -n0[2]};
                // the two sides use different edge pairs: compare only where both cross products are well conditioned
                long double maxc = 0, mine = 1e300L; for (int v : vsf) { long double p[3]; P(v, p); for (int i = 0; i < 3; ++i) maxc = std::max(maxc, std::fabs(p[i])); }
                for (int h : s.hf_hes(2 * f)) { long double a[3], b[3], l = 0; P(s.from(h), a); P(s.to(h), b); for (int i = 0; i < 3; ++i) l += (b[i] - a[i]) * (b[i] - a[i]); mine = std::min(mine, std::sqrt(l)); }
                long double area2 = 0; { long double p1[3], p2[3], p3[3]; P(vsf[0], p1); P(vsf[1], p2); P(vsf[2], p3); long double u[3], w[3]; for (int i = 0; i < 3; ++i) { u[i] = p2[i] - p1[i]; w[i] = p3[i] - p1[i]; }
                    long double n[3] = {u[1] * w[2] - u[2] * w[1], u[2] * w[0] - u[0] * w[2], u[0] * w[1] - u[1] * w[0]}; area2 = std::sqrt(n[0] * n[0] + n[1] * n[1] + n[2] * n[2]); }
                bool wellboth = mine > 0 && maxc / mine < 1e3L && area2 > 1e-3L * mine * mine;
                if (wellboth && !std::isnan(n0[0])) { ctx.cnt.add("geo.opposite-normals"); VF_CHECK(vclose(n1, neg, 1e7), "oracle:geo.normal-opposite", "face " << f << ": " << vstr(n0) << " vs " << vstr(n1)); }
                auto a0 = na[HalfFaceHandle(2 * f)], a1 = na[HalfFaceHandle(2 * f + 1)];
                VF_CHECK((a0 + a1).norm() < 1e-12 || std::isnan(a0[0]), "oracle:geo.NormalAttrib.halfface-opposite", "face " << f);
            }
        }
        for (int c = 0; c < s.nc; ++c) {
            std::set<int> cv; for (int hf : s.chf[c]) for (int v : s.hf_verts(hf)) cv.insert(v);
            long double bc[3] = {0, 0, 0}, sc = 0; for (int v : cv) { long double p[3]; P(v, p); for (int i = 0; i < 3; ++i) { bc[i] += p[i]; sc += std::fabs(p[i]); } }
            for (int i = 0; i < 3; ++i) bc[i] /= cv.size();
            ctx.cnt.add("geo.cells");
            VF_CHECK(vclose(m.barycenter(CellHandle(c)), bc, sc), "oracle:geo.barycenter(c)", "cell " << c);
        }
        // vertex normals: normalised sum of the stored normals of the boundary halffaces at the vertex
        for (int v = 0; v < s.nv; ++v) {
            std::set<int> hfs; for (int h : s.out_he[v]) for (int hf : s.he_hf[h]) if (s.hf_boundary(hf)) hfs.insert(hf);
            Vec3d sum(0, 0, 0); for (int hf : hfs) sum += na[HalfFaceHandle(hf)];
            long double nl = sum.norm(); long double r[3] = {sum[0] / nl, sum[1] / nl, sum[2] / nl};
            ctx.cnt.add("geo.vertex-normals");
            if (nl > 1e-9) VF_CHECK(vclose(na[VertexHandle(v)], r, 1e3), "oracle:geo.NormalAttrib.vertex", "vertex " << v);
        }
        ctx.fold((uint64_t)s.nv * 131 + s.nf * 17 + s.nc);
    };
}
VF_REGISTER("C19:geo", mk_c19geo);
} // namespace vf
