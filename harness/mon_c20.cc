// C20: concurrent read-only use of a mesh is race-free (TSan) and deterministic (digests).
#include "registry.hh"
#include "engine.hh"
#include <thread>
#include <atomic>
#include <chrono>
#include <mutex>
#include <condition_variable>

namespace vf {

struct Barrier {
    std::mutex m; std::condition_variable cv; int n, waiting = 0, gen = 0;
    explicit Barrier(int k) : n(k) {}
    void wait() { std::unique_lock<std::mutex> l(m); int g = gen; if (++waiting == n) { waiting = 0; ++gen; cv.notify_all(); } else cv.wait(l, [&] { return g != gen; }); }
};
static uint64_t hv(const std::vector<int> &v) { uint64_t h = 1469598103934665603ULL; for (int x : v) { h ^= (uint64_t)(x + 7); h *= 1099511628211ULL; } return h; }
static uint64_t hd(double d) { uint64_t u; memcpy(&u, &d, 8); return u * 0x9e3779b97f4a7c15ULL; }

// the table of const queries; every entry folds its result into a hash. `kind` names go into the evidence.
template <class K> struct QueryTable {
    using M = XMesh<K>;
    struct Q { const char *kind; int entity; std::function<uint64_t(const M &)> fn; };
    std::vector<Q> qs;
    std::set<std::string> kinds;
    void add(const char *k, int ent, std::function<uint64_t(const M &)> f) { qs.push_back({k, ent, std::move(f)}); kinds.insert(k); }
    template <class H> void kernel_specific(const Scan &, H *) {}
    void kernel_specific(const Scan &s, TetK *) {
        for (int c : s.live(3)) {
            add("tet.get_cell_vertices", c, [c](const M &m) { std::vector<int> r; for (auto v : m.get_cell_vertices(CellHandle(c))) r.push_back(v.idx()); return hv(r); });
            add("tet.tv_iter", c, [c](const M &m) { return hv(collect_valid(m.tv_iter(CellHandle(c)))); });
            for (int hf : s.chf[c]) add("tet.halfface_opposite_vertex", hf, [hf](const M &m) { return (uint64_t)m.halfface_opposite_vertex(HalfFaceHandle(hf)).idx(); });
        }
    }
    void kernel_specific(const Scan &s, HexK *) {
        for (int c : s.live(3)) {
            add("hex.hv_iter", c, [c](const M &m) { return hv(collect_valid(m.hv_iter(CellHandle(c)))); });
            for (int d = 0; d < 6; ++d) add("hex.csc_iter", c, [c, d](const M &m) { return hv(collect_valid(m.csc_iter(CellHandle(c), (unsigned char)d))); });
            for (int hf : s.chf[c]) { add("hex.hfshf_iter", hf, [hf](const M &m) { return hv(collect_valid(m.hfshf_iter(HalfFaceHandle(hf)))); });
                add("hex.orientation", hf, [hf, c](const M &m) { return (uint64_t)m.orientation(HalfFaceHandle(hf), CellHandle(c)) + (uint64_t)m.opposite_halfface_handle_in_cell(HalfFaceHandle(hf), CellHandle(c)).idx(); });
                for (int h : s.hf_hes(hf)) add("hex.adjacent_halfface_on_sheet", hf, [hf, h](const M &m) { return (uint64_t)m.adjacent_halfface_on_sheet(HalfFaceHandle(hf), HalfEdgeHandle(h)).idx(); }); }
        }
    }
    void build(const Scan &s, const ovm::VertexPropertyT<int> &vtag, const ovm::CellPropertyT<int> &ctag, const ovm::HalfEdgePropertyT<int> &hetag, const ovm::FacePropertyT<std::string> &fstr, const ovm::EdgePropertyT<bool> &eb) {
        add("counts", 0, [](const M &m) { return (uint64_t)(m.n_vertices() + 3 * m.n_edges() + 5 * m.n_faces() + 7 * m.n_cells() + 11 * m.n_logical_vertices() + 13 * m.n_logical_cells() + 17 * m.genus() + 19 * m.needs_garbage_collection() + 23 * m.n_halfedges() + 29 * m.n_halffaces()); });
        add("iter.vertices", 0, [](const M &m) { return hv(collect(m.vertices())); }); add("iter.edges", 0, [](const M &m) { return hv(collect(m.edges())); });
        add("iter.halfedges", 0, [](const M &m) { return hv(collect(m.halfedges())); }); add("iter.faces", 0, [](const M &m) { return hv(collect(m.faces())); });
        add("iter.halffaces", 0, [](const M &m) { return hv(collect(m.halffaces())); }); add("iter.cells", 0, [](const M &m) { return hv(collect(m.cells())); });
        for (int rep = 0; rep < 6; ++rep) add("PropertyPtr.bool/size/name/def", rep, [&vtag, &ctag, &hetag, &fstr, &eb](const M &) { return (uint64_t)((bool)vtag + 2 * (bool)ctag + 4 * (bool)hetag + 8 * (bool)fstr + 16 * (bool)eb) + 32 * (vtag.size() + ctag.size() + hetag.size() + fstr.size() + eb.size()) + hash_str(vtag.name() + fstr.name() + fstr.def()) + (uint64_t)vtag.def() + eb.def() + vtag.shared() + 2 * vtag.persistent(); });
        add("iter.boundary", 0, [](const M &m) { return hv(collect_valid(m.bv_iter())) ^ hv(collect_valid(m.bhe_iter())) ^ hv(collect_valid(m.be_iter())) ^ hv(collect_valid(m.bhf_iter())) ^ hv(collect_valid(m.bf_iter())) ^ hv(collect_valid(m.bc_iter())); });
        for (int v = 0; v < s.nv; ++v) {
            add("is_deleted(v)", v, [v](const M &m) { return (uint64_t)m.is_deleted(VertexHandle(v)); });
            add("vertex(position)", v, [v](const M &m) { const auto &p = m.vertex(VertexHandle(v)); return hd(p[0]) ^ hd(p[1]) * 3 ^ hd(p[2]) * 5; });
            add("PropertyPtr[v]", v, [v, &vtag](const M &) { int copy = vtag[VertexHandle(v)]; return (uint64_t)copy; });
            if (s.vdel[v]) continue;
            add("voh", v, [v](const M &m) { return hv(collect(m.outgoing_halfedges(VertexHandle(v)))); }); add("vih", v, [v](const M &m) { return hv(collect(m.incoming_halfedges(VertexHandle(v)))); });
            add("vv", v, [v](const M &m) { return hv(collect(m.vertex_vertices(VertexHandle(v)))); }); add("ve", v, [v](const M &m) { return hv(collect(m.vertex_edges(VertexHandle(v)))); });
            add("vhf", v, [v](const M &m) { return hv(collect(m.vertex_halffaces(VertexHandle(v)))); }); add("vf", v, [v](const M &m) { return hv(collect(m.vertex_faces(VertexHandle(v), 2))); });
            add("vc", v, [v](const M &m) { return hv(collect(m.vertex_cells(VertexHandle(v)))); });
            add("valence(v)/is_boundary(v)", v, [v](const M &m) { return (uint64_t)m.valence(VertexHandle(v)) * 2 + m.is_boundary(VertexHandle(v)); });
            for (int w : s.live(0)) if ((v + w) % 3 == 0) add("find_halfedge", v, [v, w](const M &m) { return (uint64_t)m.find_halfedge(VertexHandle(v), VertexHandle(w)).idx(); });
        }
        for (int h = 0; h < 2 * s.ne; ++h) {
            if (s.edel[h >> 1]) continue;
            add("halfedge()/from/to", h, [h](const M &m) { auto e = m.halfedge(HalfEdgeHandle(h)); auto o = m.opposite_halfedge(HalfEdgeHandle(h)); return (uint64_t)(e.from_vertex().idx() * 1000 + e.to_vertex().idx() + o.from_vertex().idx() * 7 + m.from_vertex_handle(HalfEdgeHandle(h)).idx()); });
            add("hehf", h, [h](const M &m) { return hv(collect(m.halfedge_halffaces(HalfEdgeHandle(h), 2))); }); add("hef", h, [h](const M &m) { return hv(collect(m.halfedge_faces(HalfEdgeHandle(h)))); });
            add("hec", h, [h](const M &m) { return hv(collect(m.halfedge_cells(HalfEdgeHandle(h)))); });
            add("is_boundary(he)", h, [h](const M &m) { return (uint64_t)m.is_boundary(HalfEdgeHandle(h)); });
            add("PropertyPtr[he]", h, [h, &hetag](const M &) { return (uint64_t)hetag[HalfEdgeHandle(h)]; });
            add("geometry.vector/length", h, [h](const M &m) { auto v = m.vector(HalfEdgeHandle(h)); return hd(v[0]) ^ hd(v[1]) ^ hd(m.length(HalfEdgeHandle(h))); });
            if ((h & 1) == 0) { int e = h >> 1;
                add("edge()", e, [e](const M &m) { const auto &x = m.edge(EdgeHandle(e)); return (uint64_t)(x.from_vertex().idx() * 1000 + x.to_vertex().idx()); });
                add("ehf", e, [e](const M &m) { return hv(collect(m.edge_halffaces(EdgeHandle(e)))); }); add("ef", e, [e](const M &m) { return hv(collect(m.edge_faces(EdgeHandle(e)))); }); add("ec", e, [e](const M &m) { return hv(collect(m.edge_cells(EdgeHandle(e)))); });
                add("valence(e)/is_boundary(e)", e, [e](const M &m) { return (uint64_t)m.valence(EdgeHandle(e)) * 2 + m.is_boundary(EdgeHandle(e)); });
                add("PropertyPtr<bool>[e]", e, [e, &eb](const M &) { bool b = eb[EdgeHandle(e)]; return (uint64_t)b; });
                add("geometry.barycenter(e)", e, [e](const M &m) { auto b = m.barycenter(EdgeHandle(e)); return hd(b[0]) ^ hd(b[2]); }); }
        }
        for (int hf = 0; hf < 2 * s.nf; ++hf) {
            if (s.fdel[hf >> 1] || s.fhe[hf >> 1].empty()) continue;
            add("halfface()", hf, [hf](const M &m) { std::vector<int> r; for (auto h : m.halfface(HalfFaceHandle(hf)).halfedges()) r.push_back(h.idx()); for (auto h : m.opposite_halfface(HalfFaceHandle(hf)).halfedges()) r.push_back(h.idx()); return hv(r); });
            add("hfhe", hf, [hf](const M &m) { return hv(collect(m.halfface_halfedges(HalfFaceHandle(hf), 3))); }); add("hfe", hf, [hf](const M &m) { return hv(collect(m.halfface_edges(HalfFaceHandle(hf)))); });
            add("hfv", hf, [hf](const M &m) { return hv(collect(m.halfface_vertices(HalfFaceHandle(hf)))); });
            add("incident_cell/is_boundary(hf)", hf, [hf](const M &m) { return (uint64_t)(m.incident_cell(HalfFaceHandle(hf)).idx() + 5) * 2 + m.is_boundary(HalfFaceHandle(hf)); });
            add("bhfhf", hf, [hf](const M &m) { return hv(collect(m.boundary_halfface_halffaces(HalfFaceHandle(hf)))); });
            add("get_halfface_vertices", hf, [hf](const M &m) { std::vector<int> r; for (auto v : m.get_halfface_vertices(HalfFaceHandle(hf))) r.push_back(v.idx()); return hv(r); });
            add("find_halfface", hf, [hf](const M &m) { auto vs = m.get_halfface_vertices(HalfFaceHandle(hf)); if (vs.size() < 3) return (uint64_t)0; return (uint64_t)m.find_halfface(vs).idx() * 31 + (uint64_t)m.find_halfface_extensive(vs).idx(); });
            add("next/prev_halfedge_in_halfface", hf, [hf](const M &m) { auto h = m.halfface(HalfFaceHandle(hf)).halfedges()[0]; return (uint64_t)m.next_halfedge_in_halfface(h, HalfFaceHandle(hf)).idx() * 97 + m.prev_halfedge_in_halfface(h, HalfFaceHandle(hf)).idx(); });
            if (s.fhe[hf >> 1].size() >= 3) add("geometry.normal", hf, [hf](const M &m) { auto n = m.normal(HalfFaceHandle(hf)); return hd(n[0]) ^ hd(n[1]) * 3 ^ hd(n[2]) * 7; });
            if ((hf & 1) == 0) { int f = hf >> 1;
                add("face()", f, [f](const M &m) { std::vector<int> r; for (auto h : m.face(FaceHandle(f)).halfedges()) r.push_back(h.idx()); return hv(r); });
                add("fv", f, [f](const M &m) { return hv(collect(m.face_vertices(FaceHandle(f)))); }); add("fhe", f, [f](const M &m) { return hv(collect(m.face_halfedges(FaceHandle(f)))); }); add("fe", f, [f](const M &m) { return hv(collect(m.face_edges(FaceHandle(f)))); });
                add("face_cells/is_boundary(f)/valence(f)", f, [f](const M &m) { auto c = m.face_cells(FaceHandle(f)); return (uint64_t)(c[0].idx() + 3) * 1000 + (c[1].idx() + 3) * 10 + m.is_boundary(FaceHandle(f)) + 100000 * m.valence(FaceHandle(f)); });
                add("PropertyPtr<string>[f]", f, [f, &fstr](const M &) { std::string copy = fstr[FaceHandle(f)]; return hash_str(copy); });
                add("geometry.barycenter(f)", f, [f](const M &m) { auto b = m.barycenter(FaceHandle(f)); return hd(b[0]) ^ hd(b[1]); });
                for (int e : s.live(1)) if ((e + f) % 4 == 0) add("is_incident", f, [f, e](const M &m) { return (uint64_t)m.is_incident(FaceHandle(f), EdgeHandle(e)); }); }
        }
        for (int c = 0; c < s.nc; ++c) {
            add("is_deleted(c)", c, [c](const M &m) { return (uint64_t)m.is_deleted(CellHandle(c)); });
            add("PropertyPtr[c]", c, [c, &ctag](const M &) { return (uint64_t)ctag[CellHandle(c)]; });
            if (s.cdel[c]) continue;
            add("cell()", c, [c](const M &m) { std::vector<int> r; for (auto h : m.cell(CellHandle(c)).halffaces()) r.push_back(h.idx()); return hv(r); });
            add("cv", c, [c](const M &m) { return hv(collect(m.cell_vertices(CellHandle(c)))); }); add("che", c, [c](const M &m) { return hv(collect(m.cell_halfedges(CellHandle(c)))); });
            add("ce", c, [c](const M &m) { return hv(collect(m.cell_edges(CellHandle(c)))); }); add("chf", c, [c](const M &m) { return hv(collect(m.cell_halffaces(CellHandle(c), 2))); });
            add("cf", c, [c](const M &m) { return hv(collect(m.cell_faces(CellHandle(c)))); }); add("cc", c, [c](const M &m) { return hv(collect(m.cell_cells(CellHandle(c)))); });
            add("is_boundary(c)/valence(c)/n_vertices_in_cell", c, [c](const M &m) { return (uint64_t)m.is_boundary(CellHandle(c)) + 2 * m.valence(CellHandle(c)) + 100 * m.n_vertices_in_cell(CellHandle(c)); });
            add("geometry.barycenter(c)", c, [c](const M &m) { auto b = m.barycenter(CellHandle(c)); return hd(b[0]) ^ hd(b[2]); });
            for (int hf : s.chf[c]) for (int h : s.hf_hes(hf)) add("adjacent_halfface_in_cell", hf, [hf, h](const M &m) { return (uint64_t)m.adjacent_halfface_in_cell(HalfFaceHandle(hf), HalfEdgeHandle(h)).idx(); });
            for (int hf : s.chf[c]) { auto vs = s.hf_verts(hf); if (vs.size() >= 3) add("find_halfface_in_cell/find_halfedge_in_cell", c, [c, vs](const M &m) { std::vector<VertexHandle> v; for (int x : vs) v.emplace_back(x); return (uint64_t)m.find_halfface_in_cell(v, CellHandle(c)).idx() * 131 + m.find_halfedge_in_cell(v[0], v[1], CellHandle(c)).idx(); }); }
        }
        kernel_specific(s, (K *)nullptr);
        // by-name lookups of existing properties (several value types under one name, missing ones) and registry counts
        namespace E = ovm::Entity;
        add("property_exists", 0, [](const M &m) { return (uint64_t)m.template property_exists<int, E::Vertex>("c20:val") + 2 * m.template property_exists<double, E::Vertex>("c20:val") + 4 * m.template property_exists<float, E::Vertex>("c20:val")
            + 8 * m.template property_exists<std::string, E::Face>("c20:str") + 16 * m.template property_exists<bool, E::Edge>("c20:bool") + 32 * m.template property_exists<bool, E::Face>("c20:bool") + 64 * m.template property_exists<Vec3d, E::Cell>("c20:vec")
            + 128 * m.template property_exists<std::vector<double>, E::HalfFace>("c20:vd") + 256 * m.template property_exists<int, E::Vertex>("c20:none"); });
        add("n_props/n_persistent_props", 0, [](const M &m) { uint64_t h = 0; ovm::for_each_entity([&](auto tag) { using T = decltype(tag); h = h * 131 + m.template n_props<T>() * 7 + m.template n_persistent_props<T>(); }); return h; });
        add("persistent_props iteration", 0, [](const M &m) { uint64_t h = 0; for (auto it = m.template persistent_props_begin<E::Vertex>(); it != m.template persistent_props_end<E::Vertex>(); ++it) h = h * 31 + hash_str((*it)->name()) + (*it)->size(); return h; });
        for (int v = 0; v < s.nv; v += 3) {
            add("get_property<int>(name)[v]", v, [v](const M &m) { auto p = m.template get_property<int, E::Vertex>("c20:val"); return p ? (uint64_t)(*p)[VertexHandle(v)] : 99999u; });
            add("get_property<double>(name)[v]", v, [v](const M &m) { auto p = m.template get_vertex_property<double>("c20:val"); return p ? hd((*p)[VertexHandle(v)]) : 99999u; });
        }
        for (int c = 0; c < s.nc; ++c) add("get_property<Vec3d>(name)[c]", c, [c](const M &m) { auto p = m.template get_cell_property<Vec3d>("c20:vec"); return p ? hd((*p)[CellHandle(c)][1]) : 99999u; });
        for (int hf = 0; hf < 2 * s.nf; hf += 2) add("get_property<vector<double>>(name)[hf]", hf, [hf](const M &m) { auto p = m.template get_halfface_property<std::vector<double>>("c20:vd"); if (!p) return (uint64_t)99999u; std::vector<double> copy = (*p)[HalfFaceHandle(hf)]; uint64_t h = copy.size(); for (double d : copy) h ^= hd(d); return h; });
        for (int f = 0; f < s.nf; f += 2) add("get_property<string>(name)[f]", f, [f](const M &m) { auto p = m.template get_face_property<std::string>("c20:str"); return p ? hash_str((*p)[FaceHandle(f)]) : 99999u; });
    }
};

template <class K> static void run_c20(Ctx &ctx, int rounds) {
    EngCfg g; g.chk_model = false; g.steps = 10; g.build_steps = 12; g.init_bu = 7; g.allow_toggle_bu = false; g.allow_set = false; g.allow_clear = false;
    g.init_mode = 1 | (int)(ctx.case_no & 2); g.fan_bias = 2; g.w_del = 14; g.allow_gc = false; g.allow_modes = false;   // deferred-deleted entities stay in the arrays
    g.persistent_tags = true;   // the identity tags travel with a copy of the mesh
    Engine<K> e(ctx, g);
    e.run();
    e.rescan();
    // live properties of several value types, written before the threads start (persistent: a copy of the mesh carries them)
    namespace E = ovm::Entity;
    { auto fstr = *e.mesh.template create_persistent_property<std::string, E::Face>("c20:str", "dflt");
      auto eb = *e.mesh.template create_persistent_property<bool, E::Edge>("c20:bool", false);
      auto vi = *e.mesh.template create_persistent_property<int, E::Vertex>("c20:val", -1);
      auto vd = *e.mesh.template create_persistent_property<double, E::Vertex>("c20:val", 0.5);
      auto cv3 = *e.mesh.template create_persistent_property<Vec3d, E::Cell>("c20:vec", Vec3d(1, 2, 3));
      auto hfvd = *e.mesh.template create_persistent_property<std::vector<double>, E::HalfFace>("c20:vd");
      for (int f = 0; f < e.s.nf; ++f) fstr[FaceHandle(f)] = "face" + std::to_string(f * 7919);
      for (int x = 0; x < e.s.ne; ++x) eb[EdgeHandle(x)] = (x * 7) % 3 == 0;
      for (int v = 0; v < e.s.nv; ++v) { vi[VertexHandle(v)] = v * 31 + 5; vd[VertexHandle(v)] = v * 0.25 - 3; }
      for (int c = 0; c < e.s.nc; ++c) cv3[CellHandle(c)] = Vec3d(c, c * 2.5, -c);
      for (int hf = 0; hf < 2 * e.s.nf; ++hf) hfvd[HalfFaceHandle(hf)] = std::vector<double>((size_t)(hf % 4), hf * 1.5); }
    // The readers work on a copy of the mesh that no query has touched yet (the history above has read every part of
    // the original): state that a const query fills in lazily on first use is still cold there. Every second case uses
    // the original instead (a copy might hide what only the construction history leaves behind).
    const bool use_cold = ctx.case_no % 2 == 0;
    XMesh<K> cold_storage; if (use_cold) cold_storage = e.mesh;
    ctx.cls(use_cold ? "readers-on:untouched-copy" : "readers-on:original");
    struct Handles { ovm::VertexPropertyT<int> vtag; ovm::CellPropertyT<int> ctag; ovm::HalfEdgePropertyT<int> hetag; ovm::FacePropertyT<std::string> fstr; ovm::EdgePropertyT<bool> eb; };
    auto acquire = [](XMesh<K> &m) { return Handles{*m.template get_property<int, E::Vertex>("vf:v"), *m.template get_property<int, E::Cell>("vf:c"), *m.template get_property<int, E::HalfEdge>("vf:he"),
                                                     *m.template get_property<std::string, E::Face>("c20:str"), *m.template get_property<bool, E::Edge>("c20:bool")}; };
    Handles href = acquire(e.mesh);
    XMesh<K> &tm = use_cold ? cold_storage : e.mesh;
    Handles hrun = use_cold ? acquire(cold_storage) : href;
    QueryTable<K> Tref, T;
    Tref.build(e.s, href.vtag, href.ctag, href.hetag, href.fstr, href.eb);
    T.build(e.s, hrun.vtag, hrun.ctag, hrun.hetag, hrun.fstr, hrun.eb);
    const XMesh<K> &cm = tm;
    const XMesh<K> &refm = e.mesh;
    const size_t nq = T.qs.size();
    // single-threaded reference: one digest per query, computed on the original mesh
    std::vector<uint64_t> ref(nq);
    for (size_t i = 0; i < nq; ++i) {
        // registry counts depend on which handles are alive on a mesh object: their reference is taken on the mesh the readers use
        std::string kd = T.qs[i].kind; bool registry = kd.rfind("n_props", 0) == 0 || kd.rfind("persistent_props", 0) == 0 || kd.rfind("PropertyPtr.bool", 0) == 0;
        ref[i] = registry ? T.qs[i].fn(cm) : Tref.qs[i].fn(refm);
    }
    static const int TC[] = {2, 4, 8, 16};
    int nthreads = TC[ctx.case_no % 4];
    ctx.cnt.add("query-kinds", (long long)T.kinds.size()); ctx.cnt.add("queries-in-table", (long long)nq);
    for (auto &k : T.kinds) ctx.cls(std::string("q:") + k);
    ctx.cls("threads:" + std::to_string(nthreads));
    Barrier bar(nthreads);
    std::vector<std::thread> th;
    std::vector<long long> mism(nthreads, 0), done(nthreads, 0);
    std::vector<std::pair<long long, long long>> span(nthreads);
    std::vector<uint64_t> seeds(nthreads); for (auto &s : seeds) s = ctx.rng.next();
    auto t0 = std::chrono::steady_clock::now();
    for (int t = 0; t < nthreads; ++t) th.emplace_back([&, t] {
        Rng r(seeds[t]);
        std::vector<size_t> order(nq); for (size_t i = 0; i < nq; ++i) order[i] = i;
        bar.wait();
        span[t].first = std::chrono::duration_cast<std::chrono::microseconds>(std::chrono::steady_clock::now() - t0).count();
        for (int round = 0; round < rounds; ++round) {
            r.shuffle(order);
            for (size_t i : order) { uint64_t v = T.qs[i].fn(cm); if (v != ref[i]) ++mism[t]; ++done[t]; }
        }
        span[t].second = std::chrono::duration_cast<std::chrono::microseconds>(std::chrono::steady_clock::now() - t0).count();
    });
    for (auto &x : th) x.join();
    long long overlap = 0;
    for (int a = 0; a < nthreads; ++a) for (int b = a + 1; b < nthreads; ++b) if (span[a].first < span[b].second && span[b].first < span[a].second) ++overlap;
    long long total = 0; for (int t = 0; t < nthreads; ++t) { total += done[t]; VF_CHECK(mism[t] == 0, "oracle:c20.nondeterministic", "thread " << t << " of " << nthreads << " observed " << mism[t] << " query results that differ from the single-threaded reference"); }
    ctx.cnt.add("threads", nthreads); ctx.cnt.add("concurrent-queries", total); ctx.cnt.add("overlapping-thread-pairs", overlap); ctx.cnt.add("thread-pairs", (long long)nthreads * (nthreads - 1) / 2);
    ctx.fold(nq * 31 + nthreads);
}
static CaseFn mk_c20(const Args &a) {
    int rounds = (int)a.num("rounds", a.tier == "thorough" ? 30 : 10);
    return [=](Ctx &ctx) {
        int k = (int)(ctx.case_no % 3);
        if (k == 1) run_c20<TetK>(ctx, rounds); else if (k == 2) run_c20<HexK>(ctx, rounds); else run_c20<PolyK>(ctx, rounds);
    };
}
VF_REGISTER("C20", mk_c20);
} // namespace vf
