// History monitors sharing the engine: C01 (incidences), C02 (deletion closure), C03 (properties),
// C17 (index swaps). Sub-monitors select the kernel: poly (default), tet, hex.
#include "registry.hh"
#include "engine.hh"

namespace vf {

template <class K> static void run_engine(Ctx &ctx, EngCfg g) {
    Engine<K> e(ctx, g);
    e.run();
}
static void dispatch(Ctx &ctx, EngCfg g) {
    int k = (int)(ctx.case_no % 5);   // 3/5 polyhedral soups, 1/5 tet, 1/5 hex
    if (ctx.case_no % 25 == 7) {      // polyhedral case starting from one of the repository's small test files
        static const char *files[] = {"Cube_with_props.ovm", "NonManifold.ovm", "Cube_with_props.ovmb", "NonManifold.ovmb"};
        const char *repo = getenv("VF_REPO");
        g.load_base = std::string(repo ? repo : "/repo") + "/src/Unittests/TestFiles/" + files[(ctx.case_no / 25) % 4];
        g.build_steps = 3;
    }
    if (k == 3) run_engine<TetK>(ctx, g); else if (k == 4) run_engine<HexK>(ctx, g); else run_engine<PolyK>(ctx, g);
}
static int steps_for(const Args &a, int q, int t) { return (int)a.num("steps", a.tier == "thorough" ? t : q); }

static CaseFn mk_c01(const Args &a) {
    int steps = steps_for(a, 30, 120);
    return [=](Ctx &ctx) {
        EngCfg g; g.chk_inc = true; g.chk_model = false; g.steps = steps; g.full_bu_bias = true;
        dispatch(ctx, g);
    };
}
static CaseFn mk_c02(const Args &a) {
    int steps = steps_for(a, 30, 100);
    return [=](Ctx &ctx) {
        EngCfg g; g.chk_model = true; g.steps = steps; g.w_del = 16; g.w_swap = 2; g.allow_set = false;
        g.init_mode = (int)((ctx.case_no / 5) % 4);   // every generated base in all four (deferred x fast) modes
        ctx.rng.reseed(mix(mix(ctx.master, hash_str("C02")), (uint64_t)(ctx.case_no / 20 * 5 + ctx.case_no % 5)));
        dispatch(ctx, g);
    };
}
static CaseFn mk_c03(const Args &a) {
    int steps = steps_for(a, 30, 100);
    return [=](Ctx &ctx) {
        EngCfg g; g.chk_model = true; g.chk_props = true; g.allow_props = true; g.w_prop = 8; g.steps = steps;
        g.attribs = ctx.case_no % 3 == 0;   // attribute classes judged through their accessors in a third of the cases
        dispatch(ctx, g);
    };
}
static CaseFn mk_c17(const Args &a) {
    int steps = steps_for(a, 24, 80);
    return [=](Ctx &ctx) {
        EngCfg g; g.chk_model = true; g.chk_inc = true; g.chk_swap_exact = true; g.allow_props = true; g.w_prop = 3;
        g.w_swap = 22; g.w_del = 6; g.steps = steps; g.allow_clear = false;
        dispatch(ctx, g);
    };
}
static CaseFn mk_c04(const Args &a) {
    int steps = steps_for(a, 30, 100);
    return [=](Ctx &ctx) {
        EngCfg g; g.chk_model = true; g.chk_props = true; g.allow_props = true; g.w_prop = 3; g.steps = steps;
        g.allow_status_gc = true; g.w_misc = 10; g.w_del = 12; g.w_swap = 2; g.allow_clear = false; g.allow_set = false;
        g.init_mode = (ctx.case_no % 4 == 3) ? (int)(ctx.case_no / 4 % 4) : (1 | (int)((ctx.case_no & 1) << 1));   // mostly deferred, fast on/off
        dispatch(ctx, g);
    };
}
VF_REGISTER("C04", mk_c04);
VF_REGISTER("C01", mk_c01);
VF_REGISTER("C02", mk_c02);
VF_REGISTER("C03", mk_c03);
VF_REGISTER("C17", mk_c17);
} // namespace vf
