// C18: OVMB detects truncation, framing corruption and stream failures (fault enumeration).
// C07: readers are memory-safe and terminate on any bytes; success means a valid mesh.
#include "registry.hh"
#include "ovmb_ref.hh"
#include "faultstream.hh"

namespace vf {
namespace IO = ovm::IO;

template <class M> static IO::ReadResult lib_read(std::istream &is, M &m, bool check, bool bu, std::string *msg = nullptr) {
    IO::ReadOptions o; o.topology_check = check; o.bottom_up_incidences = bu;
    auto reader = IO::make_ovmb_reader(is, o, IO::g_default_property_codecs);
    auto r = reader->read_file(m);
    if (msg) *msg = reader->get_error_msg();
    return r;
}
template <class M> static IO::ReadResult lib_read_bytes(const std::string &b, M &m, bool check, bool bu, std::string *msg = nullptr) {
    std::istringstream is(b, std::ios::binary); return lib_read(is, m, check, bu, msg);
}
// success means a valid mesh: every stored handle designates an existing entity, every property has one element per entity
template <class M> static void validity_walk(const M &m, const char *what, bool bu) {
    Scan s; s.build(m);
    cur()->cnt.add("validity-walks");
    VF_CHECK(s.wellformed, "oracle:read-ok-but-dangling-handle", what << ": reading reported success but an entity references a sub-entity that does not exist (V/E/F/C " << s.nv << "/" << s.ne << "/" << s.nf << "/" << s.nc << ")");
    std::string pm = m.prop_size_mismatch();
    VF_CHECK(pm.empty(), "oracle:read-ok-but-property-size", what << ": reading reported success but " << pm);
    VF_CHECK(!m.needs_garbage_collection(), "oracle:read-ok-but-pending", what << ": read mesh has pending deletions");
    if (bu && !s.multi_cell_hf) check_cache_shape(m, s);
}

// ------------------------------------------------------------------------------------------ C18
static const std::vector<int> &boundary_bytes(int orig) { static thread_local std::vector<int> v; v = {0, 1, 2, 3, 4, 5, 7, 8, 0x7f, 0x80, 0xfe, 0xff, (orig + 1) & 255, (orig + 255) & 255, orig ^ 0x10}; return v; }

template <class K> static void c18_case(Ctx &ctx, bool thorough) {
    Rng &rng = ctx.rng;
    auto m = make_io_mesh<K>(ctx, 1 + (int)rng.below(4), false, false, thorough ? 10 : 7, 3);
    IO::WriteResult wr;
    std::string bytes = write_ovmb_bytes([&](std::ostream &os) { return IO::ovmb_write(os, *m); }, wr);
    VF_CHECK(wr == IO::WriteResult::Ok, "oracle:ovmb.write-failed", "valid mesh");
    Canon cm; std::string err;
    VF_CHECK(ref_to_canon(bytes, cm, err), "oracle:ovmb.writer-violates-format", err);
    RefFile rf = ref_parse(bytes);
    const size_t N = bytes.size();
    ctx.op("file of " + std::to_string(N) + " bytes, " + std::to_string(rf.chunks.size()) + " chunks (" + KernelName<K>::name() + ")");
    ctx.cnt.add("c18.files"); ctx.cnt.add("c18.file-bytes", (long long)N);
    { XMesh<K> t; VF_CHECK(lib_read_bytes(bytes, t, false, false) == IO::ReadResult::Ok, "oracle:ovmb.read-rejected", "the unmodified file is rejected"); }
    auto must_reject = [&](const std::string &data, const std::string &what, const std::string &key) {
        XMesh<K> t; std::string msg;
        auto r = lib_read_bytes(data, t, rng.chance(1, 2), rng.chance(1, 4), &msg);
        ctx.cnt.add("c18.faults");
        if (r == IO::ReadResult::Ok) ctx.soft_fail(key, what + " was read with result Ok");
    };
    // (a) every strict prefix
    for (size_t L = 0; L < N; ++L) {
        VF_NOTE("prefix " << L << " of " << N);
        std::string cls = "prefix:mid-chunk";
        for (auto &c : rf.chunks) if (L == c.hdr_off) cls = (c.type == "EOF ") ? "prefix:before-EOF-chunk" : "prefix:at-chunk-boundary";
        if (L < 48) cls = "prefix:in-file-header";
        ctx.cnt.add("c18.truncations");
        must_reject(bytes.substr(0, L), "the strict prefix of length " + std::to_string(L) + " of a " + std::to_string(N) + "-byte file [" + cls + "]", "oracle:c18.truncation-accepted[" + cls + "]");
    }
    // (b) single-byte substitutions in the file header, every chunk header and every sub-header, judged when the
    //     independent decoder (written from the format description) says the result is inconsistent
    std::vector<std::pair<size_t, std::string>> positions;
    for (size_t i = 0; i < 48; ++i) positions.push_back({i, i < 8 ? "magic" : i == 8 ? "file_version" : i == 9 ? "header_version" : i == 10 ? "vertex_dim" : i == 11 ? "topo_type" : i < 16 ? "reserved" : "entity-count"});
    for (auto &c : rf.chunks) {
        static const char *hn[] = {"type", "type", "type", "type", "version", "padding_bytes", "compression", "flags", "file_length", "file_length", "file_length", "file_length", "file_length", "file_length", "file_length", "file_length"};
        for (size_t i = 0; i < 16; ++i) positions.push_back({c.hdr_off + i, std::string("chunk.") + hn[i]});
        size_t sub = c.type == "VERT" ? 16 : c.type == "TOPO" ? 24 : c.type == "PROP" ? 16 : c.type == "DIRP" ? std::min<size_t>(c.body_len, 40) : 0;
        for (size_t i = 0; i < sub && i < c.body_len; ++i) positions.push_back({c.body_off + i, c.type + ".subheader"});
        // a few payload bytes (handle values / encodings) and the padding
        for (int k = 0; k < 6 && c.body_len > sub; ++k) positions.push_back({c.body_off + sub + rng.below(c.body_len - sub), c.type + ".payload"});
        for (size_t i = c.body_len; i < c.file_length; ++i) positions.push_back({c.body_off + i, "padding"});
    }
    if (!thorough && positions.size() > 260) { rng.shuffle(positions); positions.resize(260); }
    for (auto &p : positions) for (int v : boundary_bytes((unsigned char)bytes[p.first])) {
        if (v == (unsigned char)bytes[p.first]) continue;
        std::string mut = bytes; mut[p.first] = (char)v;
        Canon cx; std::string e2;
        ctx.cnt.add("c18.substitutions");
        if (ref_to_canon(mut, cx, e2)) { ctx.cnt.add("c18.substitutions.still-valid"); continue; }   // still a valid file per description: not judged
        if (p.second == "chunk.compression" || p.second == "file_version") continue;                 // not among the fields the statement lists
        VF_NOTE("byte " << p.first << " (" << p.second << ") := " << v << " ref: " << e2);
        must_reject(mut, "byte " + std::to_string(p.first) + " (" + p.second + ") changed from " + std::to_string((unsigned char)bytes[p.first]) + " to " + std::to_string(v) + " (reference decoder: " + e2 + ")", "oracle:c18.corruption-accepted[" + p.second + "]");
    }
    // (c) chunks dropped / duplicated / swapped / spliced in
    auto chunk_bytes = [&](size_t i) { return bytes.substr(rf.chunks[i].hdr_off, 16 + (size_t)rf.chunks[i].file_length); };
    auto assemble = [&](const std::vector<size_t> &order) { std::string r = bytes.substr(0, 48); for (size_t i : order) r += chunk_bytes(i); return r; };
    size_t nc = rf.chunks.size();
    std::vector<std::pair<std::vector<size_t>, std::string>> edits;
    for (size_t i = 0; i < nc; ++i) { std::vector<size_t> o; for (size_t j = 0; j < nc; ++j) if (j != i) o.push_back(j); edits.push_back({o, "chunk " + std::to_string(i) + " (" + rf.chunks[i].type + ") dropped"}); }
    for (size_t i = 0; i < nc; ++i) { std::vector<size_t> o; for (size_t j = 0; j < nc; ++j) { o.push_back(j); if (j == i) o.push_back(j); } edits.push_back({o, "chunk " + std::to_string(i) + " (" + rf.chunks[i].type + ") duplicated"}); }
    for (size_t i = 0; i + 1 < nc; ++i) for (size_t j = i + 1; j < nc; ++j) { std::vector<size_t> o; for (size_t k = 0; k < nc; ++k) o.push_back(k == i ? j : k == j ? i : k); edits.push_back({o, "chunks " + std::to_string(i) + " (" + rf.chunks[i].type + ") and " + std::to_string(j) + " (" + rf.chunks[j].type + ") swapped"}); }
    for (auto &ed : edits) {
        std::string mut = assemble(ed.first); Canon cx; std::string e2;
        ctx.cnt.add("c18.chunk-edits");
        if (ref_to_canon(mut, cx, e2)) { ctx.cnt.add("c18.chunk-edits.still-valid"); continue; }
        VF_NOTE(ed.second << " ref: " << e2);
        must_reject(mut, ed.second + " (reference decoder: " + e2 + ")", "oracle:c18.chunk-edit-accepted");
    }
    // unknown mandatory chunk spliced in
    { std::string junk = ref_chunk("ZZZZ", "abc", 1, rng, false); size_t at = rf.chunks[rng.below(nc)].hdr_off; std::string mut = bytes.substr(0, at) + junk + bytes.substr(at);
      must_reject(mut, "an unknown mandatory chunk inserted", "oracle:c18.unknown-mandatory-accepted"); }
    // (c2) the same content re-encoded with arrays split over several chunks, one span made inconsistent (overlap, overshoot,
    //      gap, repetition, wrong order) while its payload matches its declared count
    for (int i = 0, n = thorough ? 60 : 16; i < n; ++i) {
        RefVariant v; v.hostile = 1; v.max_split = 1 + (int)rng.below(4); if (rng.chance(1, 3)) { v.handle_offset = rng.chance(1, 2); v.widen = (int)rng.below(3); v.order = (int)rng.below(3); }
        if (rng.chance(3, 4)) { uint64_t pick = rng.next(); RefVariant dry = v; dry.hostile_target = 1 << 30; Rng r2 = rng; (void)ref_encode(cm, dry, r2); v.hostile_target = (int)(pick % (uint64_t)std::max(1, dry.hostile_seen)); }
        std::string mut = ref_encode(cm, v, rng); Canon cx; std::string e2;
        if (v.hostile_desc.empty()) continue;
        ctx.cnt.add("c18.span-edits");
        if (ref_to_canon(mut, cx, e2)) { ctx.cnt.add("c18.span-edits.still-valid"); continue; }
        VF_NOTE("span edit: " << v.hostile_desc << " ref: " << e2);
        must_reject(mut, "re-encoded file with " + v.hostile_desc + " (reference decoder: " + e2 + ")", "oracle:c18.span-edit-accepted");
    }
    // (d) the input stream starts failing at byte k (it still reports its full size)
    // quick tier: ~150 sampled positions plus the first 64 and the last 32 bytes (headers and the end-of-file chunk)
    size_t step_in = thorough ? 1 : std::max<size_t>(1, N / 150);
    std::vector<size_t> pos_in; for (size_t k = rng.below(step_in); k < N; k += step_in) pos_in.push_back(k);
    if (step_in > 1) { for (size_t k = 0; k < std::min<size_t>(64, N); ++k) pos_in.push_back(k); for (size_t k = N > 32 ? N - 32 : 0; k < N; ++k) pos_in.push_back(k); std::sort(pos_in.begin(), pos_in.end()); pos_in.erase(std::unique(pos_in.begin(), pos_in.end()), pos_in.end()); }
    for (size_t k : pos_in) for (int mode = 0; mode < 2; ++mode) {
        FaultyInBuf buf(bytes, k, mode ? FaultyInBuf::THROW : FaultyInBuf::FAIL_READ);
        std::istream is(&buf);
        XMesh<K> t; IO::ReadResult r;
        VF_NOTE("read failure at byte " << k << " mode " << mode);
        try { r = lib_read(is, t, false, false); } catch (const std::ios_base::failure &) { r = IO::ReadResult::BadStream; }
        ctx.cnt.add("c18.read-faults");
        if (buf.fired() && r == IO::ReadResult::Ok) ctx.soft_fail(std::string("oracle:c18.read-failure-accepted[") + (mode ? "throwing" : "short-read") + "]", "the input stream failed at byte " + std::to_string(k) + " of " + std::to_string(N) + " but ovmb_read returned Ok");
        if (!buf.fired()) ctx.cnt.add("c18.read-faults.not-reached");
    }
    // (e) the output stream accepts only k bytes
    size_t step_out = thorough ? 1 : std::max<size_t>(1, N / 150);
    std::vector<size_t> pos_out; for (size_t k = rng.below(step_out); k < N; k += step_out) pos_out.push_back(k);
    if (step_out > 1) { for (size_t k = 0; k < std::min<size_t>(64, N); ++k) pos_out.push_back(k); for (size_t k = N > 32 ? N - 32 : 0; k < N; ++k) pos_out.push_back(k); std::sort(pos_out.begin(), pos_out.end()); pos_out.erase(std::unique(pos_out.begin(), pos_out.end()), pos_out.end()); }
    for (size_t k : pos_out) {
        FaultyOutBuf buf(k); std::ostream os(&buf);
        VF_NOTE("write failure after " << k << " bytes");
        auto r = IO::ovmb_write(os, *m);
        ctx.cnt.add("c18.write-faults");
        if (r == IO::WriteResult::Ok) ctx.soft_fail("oracle:c18.write-failure-accepted", "the output stream failed after " + std::to_string(k) + " of " + std::to_string(N) + " bytes but ovmb_write returned Ok");
        VF_CHECK(buf.data() == bytes.substr(0, buf.data().size()), "oracle:c18.write-prefix", "bytes written before the failure are not a prefix of the file");
    }
}
static CaseFn mk_c18(const Args &a) {
    bool thorough = a.tier == "thorough";
    return [=](Ctx &ctx) {
        int k = (int)(ctx.case_no % 5);
        if (k == 3) c18_case<TetK>(ctx, thorough); else if (k == 4) c18_case<HexK>(ctx, thorough); else c18_case<PolyK>(ctx, thorough);
    };
}
VF_REGISTER("C18", mk_c18);

// ------------------------------------------------------------------------------------------ C07
static const uint64_t BV[] = {0, 1, 2, 3, 4, 5, 127, 128, 254, 255, 256, 257, 65534, 65535, 65536, 0x7fffffffULL, 0x80000000ULL, 0xffffffffULL, 0x100000000ULL, 0x7fffffffffffffffULL, 0x8000000000000000ULL, 0xffffffffffffffffULL};
static void put_le(std::string &s, size_t off, uint64_t v, int n) { if (off >= s.size()) return; for (int i = 0; i < n && off + i < s.size(); ++i) s[off + i] = (char)((v >> (8 * i)) & 255); }

static std::string mutate_ovmb(const std::string &orig, const RefFile &rf, const std::string &other, Rng &rng, std::string &desc) {
    std::string s = orig;
    int nmut = 1 + (int)rng.below(3);
    for (int i = 0; i < nmut; ++i) {
        int kind = (int)rng.below(13);
        std::ostringstream d;
        auto field = [&](size_t off, int width, const char *name) { uint64_t v = BV[rng.below(sizeof BV / sizeof *BV)]; if (rng.chance(1, 3)) v = (uint64_t)rng.below(300); put_le(s, off, v, width); d << name << "@" << off << ":=" << v; };
        if (rf.chunks.empty()) kind = 8;
        const RefChunk &c = rf.chunks.empty() ? *(const RefChunk *)nullptr : rf.chunks[rng.below(rf.chunks.size())];
        switch (kind) {
        case 0: { static const int off[] = {8, 9, 10, 11, 12, 16, 24, 32, 40}; static const int w[] = {1, 1, 1, 1, 4, 8, 8, 8, 8}; int k = (int)rng.below(9); field(off[k], w[k], "fileheader"); break; }
        case 1: { static const int off[] = {0, 4, 5, 6, 7, 8}; static const int w[] = {4, 1, 1, 1, 1, 8}; int k = (int)rng.below(6); field(c.hdr_off + off[k], w[k], "chunkheader"); break; }
        case 2: if (c.type == "VERT") { static const int off[] = {0, 8, 12, 13}; static const int w[] = {8, 4, 1, 3}; int k = (int)rng.below(4); field(c.body_off + off[k], w[k], "VERT"); }
                else if (c.type == "TOPO") { static const int off[] = {0, 8, 12, 13, 14, 15, 16}; static const int w[] = {8, 4, 1, 1, 1, 1, 8}; int k = (int)rng.below(7); field(c.body_off + off[k], w[k], "TOPO"); }
                else if (c.type == "PROP") { static const int off[] = {0, 8, 12}; static const int w[] = {8, 4, 4}; int k = (int)rng.below(3); field(c.body_off + off[k], w[k], "PROP"); }
                else if (c.type == "DIRP" && c.body_len > 4) { field(c.body_off + rng.below(c.body_len - 3), rng.chance(1, 2) ? 4 : 1, "DIRP"); }
                break;
        case 3: if (c.body_len > 0) { size_t o = c.body_off + rng.below(c.body_len); int w = 1 << rng.below(3); field(o, w, "payload"); } break;   // handle values, valences, string lengths
        case 4: if (c.body_len > 0) { size_t cut = 1 + rng.below(std::min<size_t>(c.body_len, 16)); if (c.body_off + c.body_len <= s.size()) s.erase(c.body_off + c.body_len - cut, cut); d << "payload of " << c.type << " shortened by " << cut << " (length field kept)"; } break;
        case 5: { size_t add = 1 + rng.below(16); s.insert(std::min(s.size(), c.body_off + c.body_len), std::string(add, (char)rng.below(256))); d << "payload of " << c.type << " extended by " << add; break; }
        case 6: { size_t cut = 1 + rng.below(std::min<size_t>(c.body_len + 1, 24)); if (cut <= c.body_len && c.body_off + c.body_len <= s.size()) { s.erase(c.body_off + c.body_len - cut, cut); put_le(s, c.hdr_off + 8, c.file_length - cut, 8); d << c.type << " payload and length field reduced by " << cut; } break; }
        case 7: { std::string ch = orig.substr(c.hdr_off, 16 + (size_t)c.file_length); int w = (int)rng.below(3); if (c.hdr_off > s.size()) break; if (w == 0) { s.erase(c.hdr_off, std::min(ch.size(), s.size() - c.hdr_off)); d << c.type << " chunk dropped"; } else if (w == 1) { s.insert(c.hdr_off, ch); d << c.type << " chunk duplicated"; }
                  else { RefFile o = ref_parse(other); if (o.ok && !o.chunks.empty()) { auto &oc = o.chunks[rng.below(o.chunks.size())]; s.insert(c.hdr_off, other.substr(oc.hdr_off, 16 + (size_t)oc.file_length)); d << oc.type << " chunk of another file spliced in"; } } break; }
        case 8: { if (s.empty()) break; size_t o = rng.below(s.size()); s[o] = (char)(s[o] ^ (1 << rng.below(8))); d << "bit flip@" << o; break; }
        case 9: { size_t o = rng.below(s.size() + 1); size_t n = 1 + rng.below(8); std::string ins; for (size_t k = 0; k < n; ++k) ins += (char)rng.below(256); s.insert(o, ins); d << "insert " << n << "@" << o; break; }
        case 10: { if (s.empty()) break; size_t o = rng.below(s.size()); size_t n = std::min<size_t>(1 + rng.below(8), s.size() - o); s.erase(o, n); d << "delete " << n << "@" << o; break; }
        case 11: if (c.body_len > 1 && c.body_off + c.body_len <= s.size()) {   // bytes copied within a chunk: one entity's handles / values duplicated onto another's
            size_t w = 1 + rng.below(std::min<size_t>(8, c.body_len - 1)), o1 = c.body_off + rng.below(c.body_len - w + 1), o2 = c.body_off + rng.below(c.body_len - w + 1);
            std::string piece = s.substr(o1, w); s.replace(o2, w, piece); d << w << " bytes of " << c.type << " copied from @" << o1 << " to @" << o2; } break;
        default: { size_t L = rng.below(s.size() + 1); s.resize(L); d << "truncate to " << L; break; }
        }
        desc += d.str() + "; ";
    }
    return s;
}

static std::string mutate_ascii(const std::string &orig, Rng &rng, std::string &desc) {
    // tokenise by lines
    std::vector<std::string> lines; { std::istringstream is(orig); std::string l; while (std::getline(is, l)) lines.push_back(l); }
    int nmut = 1 + (int)rng.below(3);
    static const char *bad[] = {"x", "-1", "abc", "1e999", "", " ", "nan", "0x10", "18446744073709551615", "4294967296", "2147483647", "2147483648", "65536", "256", "9223372036854775808", "1.5", "#", "\"", "999999999999999999999999"};
    for (int i = 0; i < nmut && !lines.empty(); ++i) {
        size_t li = rng.below(lines.size());
        std::ostringstream d;
        std::vector<std::string> tok; { std::istringstream ts(lines[li]); std::string t; while (ts >> t) tok.push_back(t); }
        auto join = [&]() { std::string r; for (size_t k = 0; k < tok.size(); ++k) r += (k ? " " : "") + tok[k]; return r; };
        switch ((int)rng.below(10)) {
        case 9: { size_t lj = rng.below(lines.size()); lines[li] = lines[lj]; d << "line " << li << " := copy of line " << lj; break; }
        case 0: d << "line " << li << " dropped"; lines.erase(lines.begin() + li); break;
        case 1: d << "line " << li << " repeated"; lines.insert(lines.begin() + li, lines[li]); break;
        case 2: if (!tok.empty()) { size_t t = rng.below(tok.size()); tok[t] = bad[rng.below(sizeof bad / sizeof *bad)]; lines[li] = join(); d << "line " << li << " token " << t << " := '" << tok[t] << "'"; } break;
        case 3: if (!tok.empty()) { size_t t = rng.below(tok.size()); tok.erase(tok.begin() + t); lines[li] = join(); d << "line " << li << " token " << t << " dropped"; } break;
        case 4: if (!tok.empty()) { size_t t = rng.below(tok.size()); tok.insert(tok.begin() + t, tok[t]); lines[li] = join(); d << "line " << li << " token " << t << " repeated"; } break;
        case 5: { static const char *sec[] = {"Vertices", "Edges", "Faces", "Polyhedra", "OVM ASCII", "OVM BINARY", "Cells", "VProp int \"x\"", "HFProp vec3d \"n\"", "MProp string \"s\"", "CProp bool \"b\"", "EProp nosuchtype \"q\""}; lines[li] = sec[rng.below(12)]; d << "line " << li << " := '" << lines[li] << "'"; break; }
        case 6: { size_t cut = rng.below(lines.size() + 1); lines.resize(cut); d << "truncated to " << cut << " lines"; break; }
        case 7: if (!tok.empty()) { // numeric boundary value for a count / valence / handle
            size_t t = rng.below(tok.size()); uint64_t v = BV[rng.below(sizeof BV / sizeof *BV)];
            // counts that are merely large (not unallocatable) would only make the run long; keep the hostile ones
            if (v > 70000 && v < 0x7fffffffULL) v = 0x7fffffffULL;
            tok[t] = std::to_string(v); lines[li] = join(); d << "line " << li << " token " << t << " := " << v; } break;
        default: { std::string &l = lines[li]; if (!l.empty()) { size_t o = rng.below(l.size()); l[o] = (char)rng.below(256); d << "line " << li << " byte " << o << " randomised"; } break; }
        }
        desc += d.str() + "; ";
    }
    std::string r; for (auto &l : lines) r += l + "\n";
    if (rng.chance(1, 6) && !r.empty()) r.pop_back();
    return r;
}

template <class T> static void read_one_ovmb(const std::string &data, bool check, bool bu, const char *tname) {
    T t;
    IO::ReadResult r;
    try { r = lib_read_bytes(data, t, check, bu); }
    catch (const std::exception &) { cur()->cnt.add("c07.std-exceptions"); return; }   // a standard exception is an allowed way to report failure
    cur()->cnt.add(r == IO::ReadResult::Ok ? "c07.ovmb.accepted" : "c07.ovmb.rejected");
    if (r == IO::ReadResult::Ok) validity_walk(t, tname, bu);
}
template <class T> static void read_one_ascii(const std::string &data, bool check, bool bu, const char *tname) {
    T t; bool ok = false;
    IO::FileManager fm; fm.setVerbosityLevel(0);
    std::istringstream is(data);
    try { ok = fm.readStream(is, t, check, bu); }
    catch (const std::exception &) { cur()->cnt.add("c07.std-exceptions"); return; }
    cur()->cnt.add(ok ? "c07.ascii.accepted" : "c07.ascii.rejected");
    if (ok) validity_walk(t, tname, bu);
}

// A file may describe what no sequence of checked API calls produces: coincident faces (the same halfedge loop several
// times, both orientations) and cells over arbitrary pairs / triples of their halffaces, a halfface possibly used by
// several cells. All handles are in range; readers must still terminate and stay memory-safe (incidence computation and
// the re-sorting of halffaces around edges run on it when incidences are requested).
static std::unique_ptr<XMesh<PolyK>> make_overlapping_mesh(Ctx &ctx, bool ascii) {
    Rng &rng = ctx.rng;
    auto m = std::make_unique<XMesh<PolyK>>();
    m->enable_bottom_up_incidences(false);
    int nv = 3 + (int)rng.below(3);
    for (int i = 0; i < nv; ++i) m->add_vertex(Vec3d(i, i % 2, 0));
    int nloops = 1 + (int)rng.below(2); std::vector<std::vector<HalfEdgeHandle>> loops;
    for (int l = 0; l < nloops; ++l) { std::vector<HalfEdgeHandle> hes; int k = 3 + (int)rng.below(nv - 2); int off = (int)rng.below(nv);
        for (int i = 0; i < k; ++i) hes.push_back(m->halfedge_handle(m->add_edge(VertexHandle((off + i) % nv), VertexHandle((off + (i + 1) % k) % nv), l > 0), 0));
        loops.push_back(hes); }
    bool stacked = rng.chance(2, 3);   // stacked: coincident, equally oriented sheets with flat cells between the top of one and the bottom of another
    int nf = (stacked ? 3 : 2) + (int)rng.below(4);
    for (int f = 0; f < nf; ++f) { auto hes = loops[stacked ? 0 : rng.below(loops.size())];
        if (!stacked && rng.chance(1, 3)) { std::reverse(hes.begin(), hes.end()); for (auto &h : hes) h = m->opposite_halfedge_handle(h); }
        std::rotate(hes.begin(), hes.begin() + rng.below(hes.size()), hes.end()); m->add_face(hes, false); }
    int nc = (stacked ? 2 : 1) + (int)rng.below(5);
    for (int c = 0; c < nc; ++c) {
        std::vector<HalfFaceHandle> hfs;
        if (stacked) { int i = (int)rng.below(nf), j = (int)rng.below(nf); if (i == j) j = (j + 1) % nf; hfs = {HalfFaceHandle(2 * i + 1), HalfFaceHandle(2 * j)}; }
        else { int k = 2 + (int)rng.below(2); for (int i = 0; i < k; ++i) hfs.emplace_back((int)rng.below(2 * nf)); }
        m->add_cell(hfs, false); }
    ctx.cls("c07.base:overlapping-faces-and-cells");
    add_io_props(*m, ctx, 1 + (int)rng.below(3), ascii);
    return m;
}

template <class K> static void c07_case(Ctx &ctx, int nmut) {
    Rng &rng = ctx.rng;
    bool ascii = (ctx.case_no / 5) % 2;
    auto m = make_io_mesh<K>(ctx, 1 + (int)rng.below(5), ascii, false, 9, 4);
    if constexpr (std::is_same<K, PolyK>::value) { if (ctx.case_no % 5 == 2) m = make_overlapping_mesh(ctx, ascii); }
    auto m2 = make_io_mesh<PolyK>(ctx, 2, ascii, false, 6, 2);
    std::string base, other;
    if (ascii) { IO::FileManager fm; fm.setVerbosityLevel(0); std::ostringstream o1, o2; fm.writeStream(o1, *m); fm.writeStream(o2, *m2); base = o1.str(); other = o2.str(); }
    else { IO::WriteResult wr; base = write_ovmb_bytes([&](std::ostream &os) { return IO::ovmb_write(os, *m); }, wr); other = write_ovmb_bytes([&](std::ostream &os) { return IO::ovmb_write(os, *m2); }, wr); }
    // OVMB: every second base file is a re-encoding by the independent encoder (arrays split over several chunks, wider integers,
    // handle offsets, unknown chunks, other chunk orders) so that the mutations also act on multi-chunk files
    Canon cm; bool have_canon = false;
    auto random_variant = [&]() { RefVariant v; v.max_split = 1 + (int)rng.below(4); v.widen = (int)rng.below(3); v.float_pos = rng.chance(1, 3); v.force_variable_valence = rng.chance(1, 3) && cm.topo_type == 0;
        v.handle_offset = rng.chance(1, 3); v.junk_chunks = rng.chance(1, 3); v.order = (int)rng.below(3); v.odd_padding = rng.chance(1, 4); return v; };
    if (!ascii) { std::string err; have_canon = ref_to_canon(base, cm, err);
        if (have_canon && (ctx.case_no / 10) % 2) { base = ref_encode(cm, random_variant(), rng); ctx.cls("c07.base:re-encoded"); } else ctx.cls("c07.base:writer"); }
    RefFile rf; if (!ascii) rf = ref_parse(base);
    ctx.op(std::string(ascii ? "ASCII" : "OVMB") + " base file of " + std::to_string(base.size()) + " bytes (" + KernelName<K>::name() + ")");
    for (int i = 0; i < nmut; ++i) {
        std::string desc;
        std::string data;
        if (i == 0) data = base;
        else if (ascii) data = mutate_ascii(base, rng, desc);
        else if (have_canon && i >= 4 && rng.chance(1, 4)) {
            // spans that overlap / overshoot / leave gaps / repeat, with payloads that match the declared counts
            RefVariant v = random_variant(); v.hostile = 1; if (rng.chance(1, 2)) { v = RefVariant(); v.hostile = 1; v.max_split = 1 + (int)rng.below(4); }
            // mostly ONE inconsistency per file (a dry run counts the places where one can be put), sometimes several at once
            if (rng.chance(3, 4)) { uint64_t pick = rng.next(); RefVariant dry = v; dry.hostile_target = 1 << 30; Rng r2 = rng; (void)ref_encode(cm, dry, r2); v.hostile_target = (int)(pick % (uint64_t)std::max(1, dry.hostile_seen)); }
            data = ref_encode(cm, v, rng); desc = "re-encoded with hostile spans: " + v.hostile_desc;
            ctx.cnt.add(v.hostile_desc.empty() ? "c07.inputs.reencoded-valid" : "c07.inputs.hostile-spans");
            if (rng.chance(1, 3)) { RefFile r2 = ref_parse(data); std::string d2; data = mutate_ovmb(data, r2, other, rng, d2); desc += d2; }
        }
        else data = mutate_ovmb(base, rf, other, rng, desc);
        if (i == 1) { data.clear(); desc = "empty input"; }
        if (i == 2) { data.clear(); size_t n = rng.below(200); for (size_t k = 0; k < n; ++k) data += (char)rng.below(256); desc = "random bytes"; }
        if (i == 3) { data = ascii ? other + base : base + other; desc = "two files concatenated"; }
        bool check = rng.chance(1, 2), bu = rng.chance(1, 2);
        int target = (int)rng.below(4);   // mostly the matching mesh type
        VF_NOTE("input " << i << ": " << desc << " check=" << check << " bu=" << bu << " target=" << target);
        ctx.cnt.add("c07.inputs"); ctx.cnt.add(ascii ? "c07.inputs.ascii" : "c07.inputs.ovmb");
        if (target == 1) { ascii ? read_one_ascii<XMesh<TetK>>(data, check, bu, "tet target") : read_one_ovmb<XMesh<TetK>>(data, check, bu, "tet target"); }
        else if (target == 2) { ascii ? read_one_ascii<XMesh<HexK>>(data, check, bu, "hex target") : read_one_ovmb<XMesh<HexK>>(data, check, bu, "hex target"); }
        else if (target == 3) { ascii ? read_one_ascii<XMesh<K>>(data, check, bu, "same-kernel target") : read_one_ovmb<XMesh<K>>(data, check, bu, "same-kernel target"); }
        else { ascii ? read_one_ascii<XMesh<PolyK>>(data, check, bu, "poly target") : read_one_ovmb<XMesh<PolyK>>(data, check, bu, "poly target"); }
        if (!ascii && i % 8 == 0) { std::istringstream is(data, std::ios::binary); IO::detail::BinaryFileReader rd(is, IO::ReadOptions()); (void)rd.topo_type(); (void)rd.vertex_dim(); (void)rd.compatibility<XMesh<PolyK>>(); }
    }
}
static CaseFn mk_c07(const Args &a) {
    int nmut = (int)a.num("mutations", 100);
    return [=](Ctx &ctx) {
        int k = (int)(ctx.case_no % 5);
        if (k == 3) c07_case<TetK>(ctx, nmut); else if (k == 4) c07_case<HexK>(ctx, nmut); else c07_case<PolyK>(ctx, nmut);
    };
}
VF_REGISTER("C07", mk_c07);
} // namespace vf
