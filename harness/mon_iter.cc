// C05: entity iterators and circulators enumerate exactly the live / incident entities;
// the iteration protocols (begin/end, valid(), range-for, backward stepping, arithmetic) agree.
#include "registry.hh"
#include "engine.hh"

namespace vf {

template <class It> static bool same_pos(const It &a, const It &b) { return (*a).idx() == (*b).idx() && a.lap() == b.lap(); }

// protocol oracle for one circulator kind at one centre
template <class Mk, class Rg>
static void proto(const std::string &name, int centre, Mk mk, Rg rg, const std::vector<int> &exp, bool ordered) {
    Ctx &ctx = *cur();
    const int n = (int)exp.size();
    ctx.cnt.add("circulators");
    for (int L = 1; L <= 3; ++L) {
        auto c0 = mk(L);
        auto pr = rg(L);
        if (n == 0) {
            ctx.cnt.add("circulators.empty-centre");
            VF_CHECK(!c0.valid(), "oracle:circ.empty-valid:" + name, name << "(" << centre << ") has nothing incident but the circulator is dereferenceable");
            VF_CHECK(pr.first == pr.second, "oracle:circ.empty-begin!=end:" + name, name << "(" << centre << ") empty range: begin != end");
            continue;
        }
        // forward sequence with the valid() protocol, keeping copies of every position
        std::vector<decltype(c0)> pos;
        std::vector<int> seq;
        auto c = c0;
        for (int guard = 0; c.valid() && guard <= 3 * n + 2; ++guard, ++c) { pos.push_back(c); seq.push_back((*c).idx()); }
        pos.push_back(c);   // past-the-end position
        VF_CHECK((int)seq.size() == n * L, "oracle:circ.laps:" + name, name << "(" << centre << ",laps=" << L << ") visited " << seq.size() << " entities, expected " << n << "x" << L << ": " << ivec(seq));
        std::vector<int> lap0(seq.begin(), seq.begin() + n);
        if (ordered) VF_CHECK(lap0 == exp, "oracle:circ.sequence:" + name, name << "(" << centre << ") yields " << ivec(lap0) << " expected " << ivec(exp));
        else VF_CHECK(sorted(lap0) == sorted(exp), "oracle:circ.set:" + name, name << "(" << centre << ") yields " << ivec(lap0) << " expected (any order) " << ivec(exp));
        for (int l = 1; l < L; ++l) VF_CHECK(std::equal(lap0.begin(), lap0.end(), seq.begin() + l * n), "oracle:circ.lap-repeat:" + name, name << "(" << centre << ") lap " << l << " differs from lap 0: " << ivec(seq));
        // begin/end pair protocol
        std::vector<int> seq2; { auto it = pr.first; for (int guard = 0; it != pr.second && guard <= 3 * n + 2; ++guard, ++it) seq2.push_back((*it).idx()); }
        VF_CHECK(seq2 == seq, "oracle:circ.range:" + name, name << "(" << centre << ",laps=" << L << ") begin..end yields " << ivec(seq2) << " valid()-loop " << ivec(seq));
        VF_CHECK(pr.first == c0, "oracle:circ.begin:" + name, name << "(" << centre << ") range begin differs from the _iter() circulator");
        VF_CHECK(pr.second == pos.back(), "oracle:circ.end:" + name, name << "(" << centre << ",laps=" << L << ") end != begin advanced past the last lap");
        // k forward then j backward steps land on the position after k-j steps
        const int K = n * L;
        int trials = (K <= 8) ? -1 : 8;   // exhaustive for small K, sampled otherwise
        auto back = [&](int k, int j) {
            auto d = pos[k];
            for (int i = 0; i < j; ++i) --d;
            ctx.cnt.add("circ.back-steps", j);
            if (k < K) VF_CHECK(d == pos[k - j], "oracle:circ.backward:" + name, name << "(" << centre << ",laps=" << L << "): " << k << " forward then " << j << " backward steps is at " << (*d).idx() << "/lap" << d.lap() << " expected " << (*pos[k - j]).idx() << "/lap" << pos[k - j].lap());
            else VF_CHECK(same_pos(d, pos[k - j]), "oracle:circ.backward-from-end:" + name, name << "(" << centre << ",laps=" << L << "): from past-the-end " << j << " steps back is at " << (*d).idx() << "/lap" << d.lap() << " expected " << (*pos[k - j]).idx() << "/lap" << pos[k - j].lap());
        };
        if (trials < 0) { for (int k = 0; k <= K; ++k) for (int j = (k == K ? 1 : 0); j <= k; ++j) back(k, j); }
        else for (int t = 0; t < trials; ++t) { int k = (int)ctx.rng.below(K + 1); int j = k ? 1 + (int)ctx.rng.below(k) : 0; if (k == K && j == 0) j = 1; back(k, j); }
        // arithmetic agrees with repeated ++/--
        if (L == 2) {
            int a = (int)ctx.rng.below(K), b = (int)ctx.rng.below(K - a + 1);
            auto d = pos[a]; auto post = d++;
            VF_CHECK(post == pos[a] && (a + 1 < K ? d == pos[a + 1] : same_pos(d, pos[a + 1])), "oracle:circ.post-increment:" + name, name << "(" << centre << ")");
            if (a + b < K) {
                auto e = pos[a] + b; VF_CHECK(e == pos[a + b], "oracle:circ.plus:" + name, name << "(" << centre << ") +" << b);
                auto f = pos[a]; f += b; VF_CHECK(f == pos[a + b], "oracle:circ.plus-assign:" + name, name << "(" << centre << ") +=" << b);
                auto g = pos[a + b] - b; VF_CHECK(g == pos[a], "oracle:circ.minus:" + name, name << "(" << centre << ") -" << b);
                auto h = pos[a + b]; h -= b; VF_CHECK(h == pos[a], "oracle:circ.minus-assign:" + name, name << "(" << centre << ") -=" << b);
                if (a + b > 0) { auto i = pos[a + b]; auto pd = i--; VF_CHECK(pd == pos[a + b] && i == pos[a + b - 1], "oracle:circ.post-decrement:" + name, name << "(" << centre << ")"); }
            }
        }
    }
}

template <class M, class H, class B, class E, class I, class R>
static void entity_iter(const char *name, const M &, int n, const std::vector<int> &live, B begin, E end, I iter, R range) {
    (void)n;
    Ctx &ctx = *cur();
    ctx.cnt.add("entity-iterators");
    std::vector<int> s1, s2, s3, s4;
    { auto it = begin(), e = end(); for (int g = 0; it != e && g < 100000; ++g, ++it) s1.push_back((*it).idx()); }
    { auto it = iter(); for (int g = 0; it.valid() && g < 100000; ++g, ++it) s2.push_back((*it).idx()); }
    for (auto h : range()) s3.push_back(h.idx());
    { auto it = end(); for (int g = 0; g < 100000; ++g) { --it; if ((*it).idx() < 0) break; s4.push_back((*it).idx()); } std::reverse(s4.begin(), s4.end()); }
    VF_CHECK(s1 == live, std::string("oracle:iter.begin-end:") + name, name << " begin..end yields " << ivec(s1) << " live " << ivec(live));
    VF_CHECK(s2 == live, std::string("oracle:iter.valid:") + name, name << " valid()-loop yields " << ivec(s2) << " live " << ivec(live));
    VF_CHECK(s3 == live, std::string("oracle:iter.range-for:") + name, name << " range-for yields " << ivec(s3) << " live " << ivec(live));
    VF_CHECK(s4 == live, std::string("oracle:iter.backward:") + name, name << " backward from end yields " << ivec(s4) << " live " << ivec(live));
    // arithmetic
    if (!live.empty()) {
        int a = (int)ctx.rng.below(live.size()), b = (int)ctx.rng.below(live.size() - a);
        auto it = begin(); it += a; VF_CHECK((*it).idx() == live[a], std::string("oracle:iter.plus-assign:") + name, name << " begin+=" << a);
        auto it2 = begin() + (a + b); VF_CHECK((*it2).idx() == live[a + b], std::string("oracle:iter.plus:") + name, name << " begin+" << a + b);
        auto it3 = it2 - b; VF_CHECK((*it3).idx() == live[a] && it3 == it, std::string("oracle:iter.minus:") + name, name);
        auto it4 = it2; it4 -= b; VF_CHECK(it4 == it, std::string("oracle:iter.minus-assign:") + name, name);
        auto p = it++; VF_CHECK((*p).idx() == live[a], std::string("oracle:iter.post-increment:") + name, name);
        if (a + 1 < (int)live.size()) { VF_CHECK((*it).idx() == live[a + 1], std::string("oracle:iter.increment:") + name, name); auto q = it--; VF_CHECK((*q).idx() == live[a + 1] && (*it).idx() == live[a], std::string("oracle:iter.post-decrement:") + name, name); }
    }
}

template <class M> static void check_iterators(const M &m, const Scan &s) {
    const bool V = m.has_vertex_bottom_up_incidences(), E = m.has_edge_bottom_up_incidences(), F = m.has_face_bottom_up_incidences();
    auto lv = s.live(0), le = s.live(1), lf = s.live(2), lc = s.live(3);
    std::vector<int> lhe, lhf; for (int e : le) { lhe.push_back(2 * e); lhe.push_back(2 * e + 1); } for (int f : lf) { lhf.push_back(2 * f); lhf.push_back(2 * f + 1); }
    entity_iter<M, VertexHandle>("vertices", m, s.nv, lv, [&] { return m.vertices_begin(); }, [&] { return m.vertices_end(); }, [&] { return m.v_iter(); }, [&] { return m.vertices(); });
    entity_iter<M, EdgeHandle>("edges", m, s.ne, le, [&] { return m.edges_begin(); }, [&] { return m.edges_end(); }, [&] { return m.e_iter(); }, [&] { return m.edges(); });
    entity_iter<M, HalfEdgeHandle>("halfedges", m, 2 * s.ne, lhe, [&] { return m.halfedges_begin(); }, [&] { return m.halfedges_end(); }, [&] { return m.he_iter(); }, [&] { return m.halfedges(); });
    entity_iter<M, FaceHandle>("faces", m, s.nf, lf, [&] { return m.faces_begin(); }, [&] { return m.faces_end(); }, [&] { return m.f_iter(); }, [&] { return m.faces(); });
    entity_iter<M, HalfFaceHandle>("halffaces", m, 2 * s.nf, lhf, [&] { return m.halffaces_begin(); }, [&] { return m.halffaces_end(); }, [&] { return m.hf_iter(); }, [&] { return m.halffaces(); });
    entity_iter<M, CellHandle>("cells", m, s.nc, lc, [&] { return m.cells_begin(); }, [&] { return m.cells_end(); }, [&] { return m.c_iter(); }, [&] { return m.cells(); });
    if (s.multi_cell_hf) return;

#define CIRC(name, H, centre, iterfn, rangefn, exp, ordered) \
    proto(name, centre, [&](int L) { return m.iterfn(H(centre), L); }, [&](int L) { return m.rangefn(H(centre), L); }, exp, ordered)
    for (int v : lv) {
        const auto &out = s.out_he[v];
        std::vector<int> in, vv, ve, vhf, vf, vc;
        for (int h : out) { in.push_back(h ^ 1); vv.push_back(s.to(h)); ve.push_back(h >> 1);
            for (int hf : s.he_hf[h]) { vhf.push_back(hf); vhf.push_back(hf ^ 1); vf.push_back(hf >> 1); if (s.cell_of(hf) >= 0) vc.push_back(s.cell_of(hf)); } }
        if (V) {
            CIRC("voh", VertexHandle, v, voh_iter, outgoing_halfedges, out, false);
            CIRC("vih", VertexHandle, v, vih_iter, incoming_halfedges, in, false);
            CIRC("vv", VertexHandle, v, vv_iter, vertex_vertices, vv, false);
            CIRC("ve", VertexHandle, v, ve_iter, vertex_edges, ve, false);
            if (E) CIRC("vhf", VertexHandle, v, vhf_iter, vertex_halffaces, uniq(vhf), false);
            if (E && F) { CIRC("vf", VertexHandle, v, vf_iter, vertex_faces, uniq(vf), false); CIRC("vc", VertexHandle, v, vc_iter, vertex_cells, uniq(vc), false); }
        }
    }
    for (int h : lhe) {
        const auto &hfs = s.he_hf[h];
        std::vector<int> faces, cells, ehf;
        for (int hf : hfs) { faces.push_back(hf >> 1); if (s.cell_of(hf) >= 0) cells.push_back(s.cell_of(hf)); ehf.push_back(hf); ehf.push_back(hf ^ 1); }
        if (E) {
            CIRC("hehf", HalfEdgeHandle, h, hehf_iter, halfedge_halffaces, hfs, false);
            CIRC("hef", HalfEdgeHandle, h, hef_iter, halfedge_faces, uniq(faces), false);
            if (F) CIRC("hec", HalfEdgeHandle, h, hec_iter, halfedge_cells, uniq(cells), false);
            if ((h & 1) == 0) {
                int e = h >> 1;
                CIRC("ehf", EdgeHandle, e, ehf_iter, edge_halffaces, ehf, false);
                CIRC("ef", EdgeHandle, e, ef_iter, edge_faces, uniq(faces), false);
                if (F) CIRC("ec", EdgeHandle, e, ec_iter, edge_cells, uniq(cells), false);
            }
        }
    }
    for (int hf : lhf) {
        auto hes = s.hf_hes(hf); if (hes.empty()) continue;   // faces of valence 0 are outside the domain
        std::vector<int> es; for (int h : hes) es.push_back(h >> 1);
        CIRC("hfhe", HalfFaceHandle, hf, hfhe_iter, halfface_halfedges, hes, true);
        CIRC("hfe", HalfFaceHandle, hf, hfe_iter, halfface_edges, es, true);
        CIRC("hfv", HalfFaceHandle, hf, hfv_iter, halfface_vertices, s.hf_verts(hf), true);
        if ((hf & 1) == 0) {
            int f = hf >> 1;
            CIRC("fv", FaceHandle, f, fv_iter, face_vertices, s.hf_verts(hf), true);
            CIRC("fhe", FaceHandle, f, fhe_iter, face_halfedges, hes, true);
            CIRC("fe", FaceHandle, f, fe_iter, face_edges, es, true);
        }
        if (E && F && s.hf_boundary(hf)) {
            std::vector<int> nb;
            for (int h : hes) for (int g : s.he_hf[h ^ 1]) if (s.hf_boundary(g)) nb.push_back(g);
            CIRC("bhfhf", HalfFaceHandle, hf, bhfhf_iter, boundary_halfface_halffaces, nb, false);
        }
    }
    for (int c : lc) {
        std::vector<int> cv, che, ce, cf, cc;
        for (int hf : s.chf[c]) { for (int h : s.hf_hes(hf)) { che.push_back(h); ce.push_back(h >> 1); }
            for (int v : s.hf_verts(hf)) cv.push_back(v);
            cf.push_back(hf >> 1); if (s.cell_of(hf ^ 1) >= 0) cc.push_back(s.cell_of(hf ^ 1)); }
        CIRC("cv", CellHandle, c, cv_iter, cell_vertices, uniq(cv), true);
        CIRC("che", CellHandle, c, che_iter, cell_halfedges, che, true);
        CIRC("ce", CellHandle, c, ce_iter, cell_edges, uniq(ce), true);
        CIRC("chf", CellHandle, c, chf_iter, cell_halffaces, s.chf[c], true);
        CIRC("cf", CellHandle, c, cf_iter, cell_faces, cf, true);
        if (F) CIRC("cc", CellHandle, c, cc_iter, cell_cells, uniq(cc), true);
    }
#undef CIRC
}

// kernel specific circulators (content is judged by C15/C16; here: protocol + vertex sets)
template <class M> static void check_special(const M &, const Scan &, PolyK *) {}
template <class M> static void check_special(const M &m, const Scan &s, TetK *) {
    if (!m.has_face_bottom_up_incidences() || s.multi_cell_hf) return;
    for (int c : s.live(3)) {
        std::vector<int> exp; for (auto v : m.get_cell_vertices(CellHandle(c))) exp.push_back(v.idx());
        std::vector<int> cv; for (int hf : s.chf[c]) for (int v : s.hf_verts(hf)) cv.push_back(v);
        VF_CHECK(sorted(exp) == uniq(cv), "oracle:circ.tv-set", "tet " << c << " get_cell_vertices " << ivec(exp) << " cell vertex set " << ivec(uniq(cv)));
        proto("tv", c, [&](int L) { return m.tv_iter(CellHandle(c), L); }, [&](int L) { return m.tet_vertices(CellHandle(c), L); }, exp, true);
    }
}
template <class M> static void check_special(const M &m, const Scan &s, HexK *) {
    if (!m.has_face_bottom_up_incidences() || s.multi_cell_hf) return;
    for (int c : s.live(3)) {
        if (s.chf[c].size() != 6) continue;
        std::vector<int> hv = collect_valid(m.hv_iter(CellHandle(c)));
        std::vector<int> cv; for (int hf : s.chf[c]) for (int v : s.hf_verts(hf)) cv.push_back(v);
        VF_CHECK(sorted(hv) == uniq(cv) && hv.size() == 8, "oracle:circ.hv-set", "hex " << c << " hex_vertices " << ivec(hv) << " cell vertex set " << ivec(uniq(cv)));
        proto("hv", c, [&](int L) { return m.hv_iter(CellHandle(c), L); }, [&](int L) { return m.hex_vertices(CellHandle(c), L); }, hv, true);
        for (int d = 0; d < 6; ++d) {
            std::vector<int> nb;
            for (int i = 0; i < 6; ++i) if (i / 2 != d / 2) { int o = s.cell_of(s.chf[c][i] ^ 1); if (o >= 0) nb.push_back(o); }
            proto("csc", c, [&](int L) { return m.csc_iter(CellHandle(c), (unsigned char)d, L); }, [&](int L) { return m.cell_sheet_cells(CellHandle(c), (unsigned char)d, L); }, uniq(nb), true);
        }
        for (int hf : s.chf[c]) {
            std::vector<int> one = collect_valid(m.hfshf_iter(HalfFaceHandle(hf)));
            proto("hfshf", hf, [&](int L) { return m.hfshf_iter(HalfFaceHandle(hf), L); }, [&](int L) { return m.halfface_sheet_halffaces(HalfFaceHandle(hf), L); }, one, true);
        }
    }
}

template <class K> static void run_iter(Ctx &ctx, EngCfg g) {
    Engine<K> e(ctx, g);
    int every = 6 + (int)ctx.rng.below(6), n = 0;
    e.after_step = [&] { if (++n % every == 0) { ctx.cnt.add("states"); check_iterators(e.mesh, e.s); check_special(e.mesh, e.s, (K *)nullptr); } };
    e.run();
    ctx.cnt.add("states"); check_iterators(e.mesh, e.s); check_special(e.mesh, e.s, (K *)nullptr);
}
static CaseFn mk_c05(const Args &a) {
    int steps = (int)a.num("steps", a.tier == "thorough" ? 60 : 24);
    return [=](Ctx &ctx) {
        EngCfg g; g.chk_model = false; g.steps = steps; g.full_bu_bias = true; g.w_del = 12; g.allow_set = false;
        g.init_mode = (ctx.case_no % 3 == 0) ? -1 : (1 | (int)((ctx.case_no & 1) << 1));   // deferred-deleted entities in the arrays most of the time
        if (ctx.case_no % 50 == 0) g.build_steps = 0, g.steps = 2;   // (almost) empty meshes
        int k = (int)(ctx.case_no % 5);
        if (k == 3) run_iter<TetK>(ctx, g); else if (k == 4) run_iter<HexK>(ctx, g); else run_iter<PolyK>(ctx, g);
    };
}
VF_REGISTER("C05", mk_c05);
} // namespace vf
