// C08 (orientation algebra), C10 (lookup queries), C11 (construction validates / rejected calls are no-ops)
#include "registry.hh"
#include "engine.hh"
#include "snapshot.hh"

namespace vf {

// ------------------------------------------------------------------------------------------ C08
static void conv_identities(long long i) {
    using TK = ovm::TopologyKernel;
    int idx = (int)i;
    EdgeHandle e(idx); FaceHandle f(idx);
    for (int sd = 0; sd < 2; ++sd) {
        HalfEdgeHandle h = TK::halfedge_handle(e, (unsigned char)sd);
        HalfFaceHandle hf = TK::halfface_handle(f, (unsigned char)sd);
        bool ok = h.idx() == 2 * idx + sd && hf.idx() == 2 * idx + sd
               && TK::edge_handle(h) == e && TK::face_handle(hf) == f
               && h.edge_handle() == e && hf.face_handle() == f
               && e.halfedge_handle(sd) == h && f.halfface_handle(sd) == hf
               && h.subidx() == sd && hf.subidx() == sd
               && TK::halfedge_handle(TK::edge_handle(h), (unsigned char)h.subidx()) == h
               && TK::halfface_handle(TK::face_handle(hf), (unsigned char)hf.subidx()) == hf
               && TK::opposite_halfedge_handle(h).idx() == (h.idx() ^ 1) && TK::opposite_halfface_handle(hf).idx() == (hf.idx() ^ 1)
               && h.opposite_handle() == TK::opposite_halfedge_handle(h) && hf.opposite_handle() == TK::opposite_halfface_handle(hf)
               && TK::opposite_halfedge_handle(TK::opposite_halfedge_handle(h)) == h && TK::opposite_halfface_handle(TK::opposite_halfface_handle(hf)) == hf
               && TK::edge_handle(TK::opposite_halfedge_handle(h)) == e && TK::face_handle(TK::opposite_halfface_handle(hf)) == f
               && TK::opposite_halfedge_handle(h).subidx() == 1 - sd && TK::opposite_halfface_handle(hf).subidx() == 1 - sd
               && h.is_valid() && hf.is_valid() && (size_t)h.uidx() == (size_t)(2 * i + sd);
        if (!ok) VF_FAIL("oracle:conversion-identity", "handle conversion identities fail for index " << i << " side " << sd);
    }
}
static CaseFn mk_c08conv(const Args &a) {
    bool thorough = a.tier == "thorough";
    return [=](Ctx &ctx) {
        const long long LIM = 1LL << 30;
        long long n = 0;
        if (thorough) {
            // exhaustive: case c covers [c*2^22, (c+1)*2^22)
            long long lo = ctx.case_no << 22, hi = std::min(LIM, lo + (1LL << 22));
            for (long long i = lo; i < hi; ++i) conv_identities(i), ++n;
            ctx.sample = "all indices in [" + std::to_string(lo) + "," + std::to_string(hi) + ")";
        } else {
            // case c: a 2^16 block of the first 2^20, a strided sweep, and the neighbourhood of one power of two
            long long lo = (ctx.case_no % 16) << 16;
            for (long long i = lo; i < lo + (1 << 16); ++i) conv_identities(i), ++n;
            for (long long i = 1021 * (ctx.case_no % 64) + (long long)ctx.rng.below(1021); i < LIM; i += 1021LL * 64) conv_identities(i), ++n;
            int p = 1 + (int)(ctx.case_no % 30); long long c = 1LL << p;
            for (long long i = std::max(0LL, c - 2048); i < std::min(LIM, c + 2048); ++i) conv_identities(i), ++n;
            ctx.sample = "block [" + std::to_string(lo) + ",+65536), stride-65344 sweep to 2^30, +-2048 around 2^" + std::to_string(p);
        }
        ctx.cnt.add("indices", n); ctx.cnt.add("predicates", n * 2);
        ctx.fold((uint64_t)ctx.case_no);
    };
}
VF_REGISTER("C08:conv", mk_c08conv);

template <class M> static void check_mirror(const M &m, const Scan &s) {
    Ctx &ctx = *cur();
    for (int e = 0; e < s.ne; ++e) {
        if (s.edel[e]) continue;
        EdgeHandle eh(e); HalfEdgeHandle h0(2 * e), h1(2 * e + 1);
        auto E0 = m.halfedge(h0), E1 = m.halfedge(h1);
        ctx.cnt.add("mirror.edges");
        VF_CHECK(E0.from_vertex() == m.edge(eh).from_vertex() && E0.to_vertex() == m.edge(eh).to_vertex(), "oracle:mirror.halfedge0", "edge " << e);
        VF_CHECK(E1.from_vertex() == E0.to_vertex() && E1.to_vertex() == E0.from_vertex(), "oracle:mirror.halfedge-swap", "edge " << e << ": opposite halfedge does not swap ends");
        for (auto h : {h0, h1}) {
            auto O = m.opposite_halfedge(h); auto H = m.halfedge(h);
            VF_CHECK(O.from_vertex() == H.to_vertex() && O.to_vertex() == H.from_vertex(), "oracle:mirror.opposite_halfedge", "halfedge " << h.idx());
            VF_CHECK(m.from_vertex_handle(h) == H.from_vertex() && m.to_vertex_handle(h) == H.to_vertex(), "oracle:mirror.from-to", "halfedge " << h.idx());
            auto hv = m.halfedge_vertices(h);
            VF_CHECK(hv[0] == H.from_vertex() && hv[1] == H.to_vertex(), "oracle:mirror.halfedge_vertices", "halfedge " << h.idx());
            auto OO = m.opposite_halfedge(m.opposite_halfedge(H));
            VF_CHECK(OO.from_vertex() == H.from_vertex() && OO.to_vertex() == H.to_vertex(), "oracle:mirror.opposite-twice", "halfedge " << h.idx());
        }
        auto ev = m.edge_vertices(eh); auto ehs = m.edge_halfedges(eh);
        VF_CHECK(ev[0].idx() == s.ev[e][0] && ev[1].idx() == s.ev[e][1] && ehs[0] == h0 && ehs[1] == h1, "oracle:mirror.edge_vertices", "edge " << e);
    }
    for (int f = 0; f < s.nf; ++f) {
        if (s.fdel[f]) continue;
        const auto &l = s.fhe[f]; int n = (int)l.size();
        if (n == 0) continue;
        ctx.cnt.add("mirror.faces"); ctx.cnt.add("mirror.valence." + std::to_string(std::min(n, 8)));
        FaceHandle fh(f); HalfFaceHandle f0(2 * f), f1(2 * f + 1);
        auto as_int = [](const std::vector<HalfEdgeHandle> &v) { std::vector<int> r; for (auto h : v) r.push_back(h.idx()); return r; };
        auto H0 = as_int(m.halfface(f0).halfedges()), H1 = as_int(m.halfface(f1).halfedges());
        std::vector<int> rev(l.rbegin(), l.rend()); for (auto &x : rev) x ^= 1;
        VF_CHECK(H0 == l, "oracle:mirror.halfface0", "face " << f);
        VF_CHECK(H1 == rev, "oracle:mirror.halfface-reverse", "face " << f << ": opposite halfface lists " << ivec(H1) << " expected reversed opposites " << ivec(rev));
        VF_CHECK(as_int(m.opposite_halfface(f0).halfedges()) == H1 && as_int(m.opposite_halfface(f1).halfedges()) == H0, "oracle:mirror.opposite_halfface", "face " << f);
        VF_CHECK(as_int(m.opposite_halfface(m.opposite_halfface(m.face(fh))).halfedges()) == l, "oracle:mirror.opposite-twice(face)", "face " << f);
        auto fhf = m.face_halffaces(fh);
        VF_CHECK(fhf[0] == f0 && fhf[1] == f1, "oracle:mirror.face_halffaces", "face " << f);
        // closed loop (all faces in these histories were built as closed loops / accepted with check / from vertices)
        for (int i = 0; i < n; ++i) VF_CHECK(s.to(l[i]) == s.from(l[(i + 1) % n]), "oracle:mirror.closed-loop", "face " << f << ": halfedge " << l[i] << " ends at " << s.to(l[i]) << " but the next starts at " << s.from(l[(i + 1) % n]));
        // circulators of the two sides: same cycle, opposite direction
        auto v0 = collect(m.halfface_vertices(f0)), v1 = collect(m.halfface_vertices(f1));
        auto he0 = collect(m.halfface_halfedges(f0)), he1 = collect(m.halfface_halfedges(f1));
        auto ed0 = collect(m.halfface_edges(f0)), ed1 = collect(m.halfface_edges(f1));
        VF_CHECK((int)v0.size() == n && (int)v1.size() == n, "oracle:mirror.hfv-size", "face " << f);
        for (int i = 0; i < n; ++i) {
            VF_CHECK(v0[i] == s.from(l[i]), "oracle:mirror.hfv0", "face " << f);
            VF_CHECK(v1[i] == v0[(n - i) % n], "oracle:mirror.hfv-reverse", "face " << f << ": side 1 vertices " << ivec(v1) << " side 0 " << ivec(v0));
            VF_CHECK(he1[i] == (he0[n - 1 - i] ^ 1), "oracle:mirror.hfhe-reverse", "face " << f);
            VF_CHECK(ed1[i] == ed0[n - 1 - i] && ed0[i] == (l[i] >> 1), "oracle:mirror.hfe-reverse", "face " << f);
        }
        VF_CHECK(collect(m.face_vertices(fh)) == v0 && collect(m.face_halfedges(fh)) == he0 && collect(m.face_edges(fh)) == ed0, "oracle:mirror.face-circulators", "face " << f);
        std::vector<int> gv; for (auto v : m.get_halfface_vertices(f1)) gv.push_back(v.idx());
        VF_CHECK(gv == v1, "oracle:mirror.get_halfface_vertices", "face " << f);
        // next/prev are inverse steps along the cycle (faces that list an edge once)
        std::set<int> es; for (int h : l) es.insert(h >> 1);
        if ((int)es.size() == n) for (auto side : {f0, f1}) {
            auto hs = side == f0 ? H0 : H1;
            for (int i = 0; i < n; ++i) {
                HalfEdgeHandle h(hs[i]);
                auto nx = m.next_halfedge_in_halfface(h, side), pv = m.prev_halfedge_in_halfface(h, side);
                VF_CHECK(nx.idx() == hs[(i + 1) % n] && pv.idx() == hs[(i + n - 1) % n], "oracle:mirror.next-prev", "face " << f << " halfedge " << hs[i] << ": next " << nx.idx() << " prev " << pv.idx());
                VF_CHECK(m.prev_halfedge_in_halfface(nx, side) == h && m.next_halfedge_in_halfface(pv, side) == h, "oracle:mirror.next-prev-inverse", "face " << f);
                VF_CHECK(!m.next_halfedge_in_halfface(HalfEdgeHandle(hs[i] ^ 1), side).is_valid() || n <= 2, "oracle:mirror.next-foreign", "face " << f << ": next_halfedge_in_halfface accepts a halfedge of the other side");
            }
        }
    }
}
// a face accepted WITH topology check must be a closed loop: submit connected halfedge paths whose last->first
// junction is open most of the time (and closed sometimes); whatever is accepted is judged by check_mirror
template <class K> static void probe_checked_face(Engine<K> &e) {
    Ctx &ctx = e.ctx; Rng &rng = e.rng;
    std::vector<int> lhe; for (int x : e.live_e()) { lhe.push_back(2 * x); lhe.push_back(2 * x + 1); }
    if (lhe.empty()) return;
    int want = KernelName<K>::kind == 1 ? 3 : KernelName<K>::kind == 2 ? 4 : 1 + (int)rng.below(5);
    std::vector<int> path{rng.pick(lhe)}; std::set<int> used{path[0] >> 1};
    while ((int)path.size() < want) {
        std::vector<int> nx; for (int h : e.s.out_he[e.s.to(path.back())]) if (!used.count(h >> 1)) nx.push_back(h);
        if (nx.empty()) break;
        // prefer a closing halfedge for the last position now and then
        int pick = rng.pick(nx);
        if ((int)path.size() == want - 1 && rng.chance(1, 3)) for (int h : nx) if (e.s.to(h) == e.s.from(path[0])) pick = h;
        path.push_back(pick); used.insert(pick >> 1);
    }
    if ((int)path.size() != want) return;
    bool closed = e.s.to(path.back()) == e.s.from(path[0]);
    int nf0 = e.s.nf;
    std::vector<HalfEdgeHandle> hh; for (int h : path) hh.emplace_back(h);
    ctx.op("probe add_face(path=" + ivec(path) + (closed ? ",closed" : ",open") + ",check=true)");
    auto f = e.mesh.add_face(hh, true);
    ctx.cnt.add(f.is_valid() ? "mirror.checked-probes.accepted" : "mirror.checked-probes.rejected");
    ctx.cnt.add(closed ? "mirror.checked-probes.closed" : "mirror.checked-probes.open");
    if (f.is_valid()) { e.adopt_new(e.s.nv, e.s.ne, nf0, e.s.nc); }
    e.rescan();
    if (f.is_valid() && !closed) VF_FAIL("oracle:mirror.checked-face-not-closed", "add_face(" << ivec(path) << ", check=true) accepted a halfedge path that is not a closed loop (the last halfedge ends at " << e.s.to(path.back()) << ", the first starts at " << e.s.from(path[0]) << ")");
}
template <class K> static void run_mirror(Ctx &ctx, EngCfg g) {
    Engine<K> e(ctx, g);
    int n = 0;
    e.after_step = [&] { check_mirror(e.mesh, e.s); if (++n % 3 == 0) { probe_checked_face(e); check_mirror(e.mesh, e.s); } };
    e.run();
}
static CaseFn mk_c08mesh(const Args &a) {
    int steps = (int)a.num("steps", a.tier == "thorough" ? 80 : 24);
    return [=](Ctx &ctx) {
        EngCfg g; g.chk_model = false; g.steps = steps; g.full_bu_bias = true;
        int k = (int)(ctx.case_no % 5);
        if (k == 3) run_mirror<TetK>(ctx, g); else if (k == 4) run_mirror<HexK>(ctx, g); else run_mirror<PolyK>(ctx, g);
    };
}
VF_REGISTER("C08:mesh", mk_c08mesh);

// ------------------------------------------------------------------------------------------ C10
template <class M> static void check_lookups(const M &m, const Scan &s, Rng &rng) {
    Ctx &ctx = *cur();
    if (!m.has_full_bottom_up_incidences() || s.multi_cell_hf) return;
    auto lv = s.live(0), lf = s.live(2), lc = s.live(3);
    auto hes_from_to = [&](int a, int b) { std::vector<int> r; for (int h : s.out_he[a]) if (s.to(h) == b) r.push_back(h); return r; };
    auto hf_contains = [&](int hf, int h) { auto l = s.hf_hes(hf); return std::find(l.begin(), l.end(), h) != l.end(); };
    auto is_rotation = [](const std::vector<int> &a, const std::vector<int> &b) {
        if (a.size() != b.size()) return false; size_t n = a.size();
        for (size_t r = 0; r < n; ++r) { bool ok = true; for (size_t i = 0; i < n && ok; ++i) ok = a[(i + r) % n] == b[i]; if (ok) return true; }
        return n == 0;
    };
    // find_halfedge: all ordered pairs
    for (int a : lv) for (int b : lv) {
        auto cand = hes_from_to(a, b);
        int r = m.find_halfedge(VertexHandle(a), VertexHandle(b)).idx();
        ctx.cnt.add("lookup.find_halfedge");
        if (cand.empty()) VF_CHECK(r == -1, "oracle:find_halfedge.phantom", "no live halfedge " << a << "->" << b << " but find_halfedge returned " << r);
        else { ctx.cnt.add("lookup.find_halfedge.hit"); VF_CHECK(std::find(cand.begin(), cand.end(), r) != cand.end(), "oracle:find_halfedge.missed-or-wrong", "live halfedges " << a << "->" << b << ": " << ivec(cand) << " but find_halfedge returned " << r); }
    }
    // vertex tuples for the halfface lookups
    std::vector<std::vector<int>> tuples;
    for (int f : lf) for (int sd = 0; sd < 2; ++sd) {
        auto vs = s.hf_verts(2 * f + sd); int n = (int)vs.size();
        if (n < 3) continue;
        for (int r = 0; r < n; ++r) { std::vector<int> t; for (int i = 0; i < n; ++i) t.push_back(vs[(i + r) % n]); tuples.push_back(t); }
        std::vector<int> t = vs; if (!lv.empty()) t[rng.below(n)] = rng.pick(lv); tuples.push_back(t);   // one vertex replaced
        if (n > 3) { std::vector<int> t2(vs.begin(), vs.begin() + 3); tuples.push_back(t2); }               // prefix only
        if (n > 3) { std::vector<int> t3 = vs; std::swap(t3[n - 1], t3[n - 2]); tuples.push_back(t3); }     // tail permuted (first three intact)
    }
    if (lv.size() >= 3) {
        if (lv.size() <= 10) { for (int a : lv) for (int b : lv) for (int c : lv) if (a != b && b != c && a != c) tuples.push_back({a, b, c}); }
        else for (int i = 0; i < 300; ++i) { int a = rng.pick(lv), b = rng.pick(lv), c = rng.pick(lv); if (a != b && b != c && a != c) tuples.push_back({a, b, c}); }
    }
    for (auto &t : tuples) {
        std::vector<VertexHandle> vh; for (int v : t) vh.emplace_back(v);
        auto c01 = hes_from_to(t[0], t[1]), c12 = hes_from_to(t[1], t[2]);
        // halffaces containing some halfedge t0->t1 and some halfedge t1->t2
        std::vector<int> match3;
        for (int hf = 0; hf < 2 * s.nf; ++hf) if (!s.fdel[hf >> 1]) {
            bool a = false, b = false; for (int h : c01) a |= hf_contains(hf, h); for (int h : c12) b |= hf_contains(hf, h);
            if (a && b) match3.push_back(hf);
        }
        bool parallel = c01.size() > 1 || c12.size() > 1;
        int r = m.find_halfface(vh).idx();
        ctx.cnt.add("lookup.find_halfface(v)");
        if (r != -1) { ctx.cnt.add("lookup.find_halfface(v).hit"); VF_CHECK(std::find(match3.begin(), match3.end(), r) != match3.end(), "oracle:find_halfface(v).wrong", "tuple " << ivec(t) << ": returned halfface " << r << " which is deleted or does not contain " << t[0] << "->" << t[1] << "->" << t[2]); }
        else if (!match3.empty()) {
            if (parallel) { ctx.cls("find_halfface:parallel-edge-miss"); VF_FAIL("oracle:find_halfface(v).missed[parallel-edges]", "tuple " << ivec(t) << ": halffaces " << ivec(match3) << " match but find_halfface returned invalid (parallel edges between the first vertices)"); }
            VF_FAIL("oracle:find_halfface(v).missed", "tuple " << ivec(t) << ": halffaces " << ivec(match3) << " match but find_halfface returned invalid");
        }
        // extensive: all vertices, exact cyclic order
        std::vector<int> matchx;
        for (int hf = 0; hf < 2 * s.nf; ++hf) if (!s.fdel[hf >> 1] && is_rotation(s.hf_verts(hf), t)) matchx.push_back(hf);
        int rx = m.find_halfface_extensive(vh).idx();
        ctx.cnt.add("lookup.find_halfface_extensive");
        if (rx != -1) { ctx.cnt.add("lookup.find_halfface_extensive.hit"); VF_CHECK(std::find(matchx.begin(), matchx.end(), rx) != matchx.end(), "oracle:find_halfface_extensive.wrong", "tuple " << ivec(t) << ": returned halfface " << rx << " with vertices " << ivec(s.hf_verts(rx))); }
        else if (!matchx.empty()) {
            if (c01.size() > 1) VF_FAIL("oracle:find_halfface_extensive.missed[parallel-edges]", "tuple " << ivec(t) << ": halffaces " << ivec(matchx) << " match (parallel edges " << t[0] << "->" << t[1] << ")");
            VF_FAIL("oracle:find_halfface_extensive.missed", "tuple " << ivec(t) << ": halffaces " << ivec(matchx) << " match but the lookup returned invalid");
        }
        // in-cell variants over all closed cells
        for (int c : lc) {
            std::vector<int> inc, hes_in_cell;
            for (int hf : s.chf[c]) { auto l = s.hf_hes(hf); int n = (int)l.size();
                for (int i = 0; i < n; ++i) { hes_in_cell.push_back(l[i]); if (s.from(l[i]) == t[0] && s.to(l[i]) == t[1] && s.to(l[(i + 1) % n]) == t[2]) inc.push_back(hf); } }
            // domain: cells whose edges are unambiguous (no parallel edges inside the cell)
            std::set<std::pair<int, int>> seen; bool par = false;
            for (int h : hes_in_cell) if (!seen.insert({s.from(h), s.to(h)}).second) par = true;
            if (par) continue;
            VF_NOTE("find_halfface_in_cell(" << ivec(t) << ", cell " << c << " = " << ivec(s.chf[c]) << ")");
            int rc = m.find_halfface_in_cell(vh, CellHandle(c)).idx();
            ctx.cnt.add("lookup.find_halfface_in_cell");
            if (inc.empty()) VF_CHECK(rc == -1, "oracle:find_halfface_in_cell.phantom", "cell " << c << " tuple " << ivec(t) << ": returned " << rc);
            else { ctx.cnt.add("lookup.find_halfface_in_cell.hit"); VF_CHECK(std::find(inc.begin(), inc.end(), rc) != inc.end(), "oracle:find_halfface_in_cell.missed-or-wrong", "cell " << c << " tuple " << ivec(t) << ": expected one of " << ivec(inc) << " got " << rc); }
            int want = -2; for (int h : hes_in_cell) { if (s.from(h) == t[0] && s.to(h) == t[1]) want = h; else if (s.from(h) == t[1] && s.to(h) == t[0] && want == -2) want = h ^ 1; }
            int rh = m.find_halfedge_in_cell(VertexHandle(t[0]), VertexHandle(t[1]), CellHandle(c)).idx();
            ctx.cnt.add("lookup.find_halfedge_in_cell");
            if (want == -2) VF_CHECK(rh == -1, "oracle:find_halfedge_in_cell.phantom", "cell " << c << ": no edge " << t[0] << "-" << t[1] << " in the cell but got " << rh);
            else { ctx.cnt.add("lookup.find_halfedge_in_cell.hit"); VF_CHECK(rh >= 0 && rh < 2 * s.ne && s.from(rh) == t[0] && s.to(rh) == t[1] && (std::find(hes_in_cell.begin(), hes_in_cell.end(), rh) != hes_in_cell.end() || std::find(hes_in_cell.begin(), hes_in_cell.end(), rh ^ 1) != hes_in_cell.end()),
                              "oracle:find_halfedge_in_cell.missed-or-wrong", "cell " << c << " pair " << t[0] << "," << t[1] << ": got " << rh); }
        }
    }
    // find_halfface by halfedges: all pairs of halfedges on small meshes, sampled above
    std::vector<int> lhe; for (int e : s.live(1)) { lhe.push_back(2 * e); lhe.push_back(2 * e + 1); }
    auto probe_hes = [&](int h0, int h1) {
        std::vector<int> mt; for (int hf : s.he_hf[h0]) if (hf_contains(hf, h1)) mt.push_back(hf);
        int r = m.find_halfface(std::vector<HalfEdgeHandle>{HalfEdgeHandle(h0), HalfEdgeHandle(h1)}).idx();
        ctx.cnt.add("lookup.find_halfface(he)");
        if (mt.empty()) VF_CHECK(r == -1, "oracle:find_halfface(he).phantom", "halfedges " << h0 << "," << h1 << ": no halfface contains both but got " << r);
        else { ctx.cnt.add("lookup.find_halfface(he).hit"); VF_CHECK(std::find(mt.begin(), mt.end(), r) != mt.end(), "oracle:find_halfface(he).missed-or-wrong", "halfedges " << h0 << "," << h1 << ": expected one of " << ivec(mt) << " got " << r); }
    };
    if (lhe.size() <= 40) { for (int a : lhe) for (int b : lhe) probe_hes(a, b); }
    else for (int i = 0; i < 1500; ++i) probe_hes(rng.pick(lhe), rng.pick(lhe));
    for (int f : lf) for (int sd = 0; sd < 2; ++sd) { auto l = s.hf_hes(2 * f + sd); for (size_t i = 0; i + 1 < l.size(); ++i) probe_hes(l[i], l[i + 1]); }
    // get_halfface_vertices (three forms), is_incident, n_vertices_in_cell
    for (int f : lf) for (int sd = 0; sd < 2; ++sd) {
        int hf = 2 * f + sd; auto vs = s.hf_verts(hf), hl = s.hf_hes(hf); int n = (int)vs.size();
        if (n == 0) continue;
        auto toi = [](const std::vector<VertexHandle> &v) { std::vector<int> r; for (auto x : v) r.push_back(x.idx()); return r; };
        VF_CHECK(toi(m.get_halfface_vertices(HalfFaceHandle(hf))) == vs, "oracle:get_halfface_vertices", "halfface " << hf);
        std::set<int> dv(vs.begin(), vs.end());
        for (int i = 0; i < n; ++i) {
            std::vector<int> rot; for (int j = 0; j < n; ++j) rot.push_back(vs[(i + j) % n]);
            ctx.cnt.add("lookup.get_halfface_vertices");
            if ((int)dv.size() == n) {
                VF_CHECK(toi(m.get_halfface_vertices(HalfFaceHandle(hf), VertexHandle(vs[i]))) == rot, "oracle:get_halfface_vertices(vh)", "halfface " << hf << " start " << vs[i] << " got " << ivec(toi(m.get_halfface_vertices(HalfFaceHandle(hf), VertexHandle(vs[i])))) << " expected " << ivec(rot));
                VF_CHECK(toi(m.get_halfface_vertices(HalfFaceHandle(hf), HalfEdgeHandle(hl[i]))) == rot, "oracle:get_halfface_vertices(heh)", "halfface " << hf << " start halfedge " << hl[i]);
            }
        }
        for (int e : s.live(1)) {
            bool inc = false; for (int h : s.fhe[f]) inc |= (h >> 1) == e;
            if (sd == 0) { ctx.cnt.add("lookup.is_incident"); VF_CHECK(m.is_incident(FaceHandle(f), EdgeHandle(e)) == inc, "oracle:is_incident", "face " << f << " edge " << e << " scan says " << inc); }
        }
    }
    for (int c : lc) {
        std::set<int> vs; for (int hf : s.chf[c]) for (int v : s.hf_verts(hf)) vs.insert(v);
        ctx.cnt.add("lookup.n_vertices_in_cell");
        VF_CHECK(m.n_vertices_in_cell(CellHandle(c)) == vs.size(), "oracle:n_vertices_in_cell", "cell " << c << ": " << m.n_vertices_in_cell(CellHandle(c)) << " scan " << vs.size());
    }
}
template <class K> static void run_lookup(Ctx &ctx, EngCfg g) {
    Engine<K> e(ctx, g);
    int n = 0;
    auto all_on = [&] { return e.mesh.has_vertex_bottom_up_incidences() && e.mesh.has_edge_bottom_up_incidences() && e.mesh.has_face_bottom_up_incidences(); };
    e.after_step = [&] { if (++n % 9 == 0) {
        // lookups are only used while the incidences are on; a state reached through switching them off and on again counts
        if (!all_on()) { ctx.op("enable_bottom_up_incidences(1)"); e.mesh.enable_bottom_up_incidences(true); e.rescan(); ctx.cnt.add("lookup.states-after-reenabling"); }
        ctx.cnt.add("states"); check_lookups(e.mesh, e.s, ctx.rng); } };
    e.run();
    if (!all_on()) { ctx.op("enable_bottom_up_incidences(1)"); e.mesh.enable_bottom_up_incidences(true); e.rescan(); ctx.cnt.add("lookup.states-after-reenabling"); }
    ctx.cnt.add("states"); check_lookups(e.mesh, e.s, ctx.rng);
    // the same state with all incidences recomputed from scratch (deleted-but-not-collected entities present in half of the cases)
    int which = (int)ctx.rng.below(4);
    ctx.op(std::string("recompute incidences: ") + (which == 0 ? "vertex" : which == 1 ? "edge" : which == 2 ? "face" : "all") + " off/on");
    if (which == 0) { e.mesh.enable_vertex_bottom_up_incidences(false); e.mesh.enable_vertex_bottom_up_incidences(true); }
    else if (which == 1) { e.mesh.enable_edge_bottom_up_incidences(false); e.mesh.enable_edge_bottom_up_incidences(true); }
    else if (which == 2) { e.mesh.enable_face_bottom_up_incidences(false); e.mesh.enable_face_bottom_up_incidences(true); }
    else { e.mesh.enable_bottom_up_incidences(false); e.mesh.enable_bottom_up_incidences(true); }
    e.rescan(); if (e.model.any_pending()) ctx.cnt.add("lookup.states-recomputed-with-pending");
    ctx.cnt.add("states"); ctx.cnt.add("lookup.states-after-reenabling"); check_lookups(e.mesh, e.s, ctx.rng);
}
static CaseFn mk_c10(const Args &a) {
    int steps = (int)a.num("steps", a.tier == "thorough" ? 60 : 24);
    return [=](Ctx &ctx) {
        EngCfg g; g.chk_model = false; g.steps = steps; g.init_bu = 7; g.allow_toggle_bu = (ctx.case_no / 5) % 2; g.full_bu_bias = true; g.allow_set = false; g.max_v = 10;
        if (ctx.case_no % 3 == 0) g.allow_dups = false;   // meshes without parallel edges: every lookup is decidable
        g.init_mode = (ctx.case_no % 2) ? 1 : -1;
        int k = (int)(ctx.case_no % 5);
        if (k == 3) run_lookup<TetK>(ctx, g); else if (k == 4) run_lookup<HexK>(ctx, g); else run_lookup<PolyK>(ctx, g);
    };
}
VF_REGISTER("C10", mk_c10);

// ------------------------------------------------------------------------------------------ C11
template <class K> struct C11Probe {
    Engine<K> &e; Ctx &ctx; Rng &rng;
    using M = XMesh<K>;
    static constexpr int KIND = KernelName<K>::kind;
    explicit C11Probe(Engine<K> &en) : e(en), ctx(en.ctx), rng(en.rng) {}
    struct Both { FullSnap f; typename Engine<K>::Snap t; };
    Both snap() { Both b; e.rescan(); b.f.take(e.mesh); b.t = e.snapshot(); return b; }
    void expect_unchanged(const Both &before, const std::string &call, const char *why) {
        Both after = snap();
        std::string d = before.f.diff(after.f);
        if (!(before.t == after.t)) d += "tag/property arrays; ";
        ctx.cnt.add("rejected-calls");
        VF_CHECK(d.empty(), std::string("oracle:noop-violated:") + why, call << " (" << why << ") changed: " << d);
    }
    bool closed_loop(const std::vector<int> &hes) {
        if (hes.empty()) return false;
        for (size_t i = 0; i < hes.size(); ++i) if (e.s.to(hes[i]) != e.s.from(hes[(i + 1) % hes.size()])) return false;
        return true;
    }
    bool closed_surface(const std::vector<int> &hfs) {
        if (hfs.empty()) return false;
        std::map<int, int> cnt;
        for (int hf : hfs) for (int h : e.s.hf_hes(hf)) cnt[h]++;
        for (auto &kv : cnt) { if (kv.second != 1) return false; auto o = cnt.find(kv.first ^ 1); if (o == cnt.end() || o->second != 1) return false; }
        return true;
    }
    void probe_add_edge() {
        auto lv = e.live_v(); if (lv.size() < 2) return;
        int a = rng.pick(lv), b = rng.pick(lv);
        // look-alikes: the end points of an edge that is deleted but not yet collected, with the incidences possibly recomputed in between
        if (rng.chance(1, 3)) {
            std::vector<int> cand; const Scan &sc = e.s;
            for (int x = 0; x < sc.ne; ++x) if (sc.edel[x] && sc.ev[x][0] >= 0 && sc.ev[x][0] < sc.nv && sc.ev[x][1] >= 0 && sc.ev[x][1] < sc.nv && !sc.vdel[sc.ev[x][0]] && !sc.vdel[sc.ev[x][1]]) cand.push_back(x);
            if (!cand.empty()) { int x = rng.pick(cand); a = sc.ev[x][0]; b = sc.ev[x][1]; ctx.cls("add_edge:probe-on-deleted-edge");
                if (rng.chance(1, 2)) { bool was = e.mesh.has_vertex_bottom_up_incidences(); ctx.op("enable_vertex_bottom_up_incidences(0/1) before the probe"); e.mesh.enable_vertex_bottom_up_incidences(false); if (was || rng.chance(1, 2)) e.mesh.enable_vertex_bottom_up_incidences(true); e.rescan(); } }
        }
        if (a == b) return;
        auto before = snap();
        auto ex = e.halfedges_between(a, b);
        int n0 = e.s.ne;
        rng.chance(1, 2) ? (void)0 : std::swap(a, b);
        ctx.op("probe add_edge(" + std::to_string(a) + "," + std::to_string(b) + ",false)[" + e.cfgclass() + "]");
        auto h = e.mesh.add_edge(VertexHandle(a), VertexHandle(b), false);
        std::string call = "add_edge(" + std::to_string(a) + "," + std::to_string(b) + ",false)->" + std::to_string(h.idx());
        ex = e.halfedges_between(a, b).empty() ? ex : ex;
        if (!before.f.s.out_he.empty() && [&] { for (int x : before.f.s.out_he[a]) if (before.f.s.to(x) == b) return true; for (int x : before.f.s.out_he[b]) if (before.f.s.to(x) == a) return true; return false; }()) {
            ctx.cls("add_edge:dedup[" + e.cfgclass() + "]");
            VF_CHECK(h.idx() >= 0 && h.idx() < n0 && !before.f.s.edel[h.idx()], "oracle:add_edge.dedup-result", call << ": a live edge exists; result must be that edge");
            auto d = before.f.s.ev[h.idx()];
            VF_CHECK((d[0] == a && d[1] == b) || (d[0] == b && d[1] == a), "oracle:add_edge.dedup-wrong", call << " returned an edge joining " << d[0] << "," << d[1]);
            expect_unchanged(before, call, "deduplicated add_edge");
        } else {
            ctx.cls("add_edge:new[" + e.cfgclass() + "]");
            VF_CHECK(h.idx() == n0 && (int)e.mesh.n_edges() == n0 + 1, "oracle:add_edge.create", call << ": no live edge joins the vertices, expected new edge " << n0 << (h.idx() >= 0 && h.idx() < n0 && before.f.s.edel[h.idx()] ? " (a DELETED edge was returned)" : ""));
            e.adopt_new(e.s.nv, n0, e.s.nf, e.s.nc); e.rescan();
            VF_CHECK(e.s.ev[n0][0] == a && e.s.ev[n0][1] == b, "oracle:add_edge.create-def", call);
            accepted_rest_unchanged(before, 1);
        }
    }
    // after an accepted call: exactly one new entity of `kind`, all old definitions/flags/tags/positions unchanged, C01 oracle holds
    void accepted_rest_unchanged(const Both &before, int kind) {
        Both after = snap();
        const Scan &a = before.f.s, &b = after.f.s;
        ctx.cnt.add("accepted-calls");
        int dn[4] = {b.nv - a.nv, b.ne - a.ne, b.nf - a.nf, b.nc - a.nc};
        for (int k = 0; k < 4; ++k) VF_CHECK(dn[k] == (k == kind ? 1 : 0), "oracle:accepted.count", "accepted call of kind " << kind << " changed the number of entities of kind " << k << " by " << dn[k]);
        bool same = std::equal(a.ev.begin(), a.ev.end(), b.ev.begin()) && std::equal(a.fhe.begin(), a.fhe.end(), b.fhe.begin()) && std::equal(a.chf.begin(), a.chf.end(), b.chf.begin())
                 && std::equal(a.vdel.begin(), a.vdel.end(), b.vdel.begin()) && std::equal(a.edel.begin(), a.edel.end(), b.edel.begin()) && std::equal(a.fdel.begin(), a.fdel.end(), b.fdel.begin()) && std::equal(a.cdel.begin(), a.cdel.end(), b.cdel.begin());
        VF_CHECK(same, "oracle:accepted.others-changed", "an accepted construction call changed another entity's definition or flag");
        for (int k = 0; k < 4; ++k) VF_CHECK(std::equal(before.t.tag[k].begin(), before.t.tag[k].end(), after.t.tag[k].begin()), "oracle:accepted.tags-changed", "kind " << k);
        VF_CHECK(std::equal(before.f.positions.begin(), before.f.positions.end(), after.f.positions.begin()), "oracle:accepted.positions-changed", "");
        check_incidences(e.mesh, e.s);
    }
    std::vector<int> random_halfedge_list() {
        std::vector<int> lhe; for (int x : e.live_e()) { lhe.push_back(2 * x); lhe.push_back(2 * x + 1); }
        std::vector<int> l;
        int mode = (int)rng.below(9);
        auto lf = e.live_f();
        if (mode == 0) return {};                                                     // empty
        if (mode == 1 && !lhe.empty()) return {rng.pick(lhe)};                        // single halfedge (closed iff loop)
        if (mode <= 4 && !lf.empty()) {                                               // derived from an existing face
            l = e.s.hf_hes(2 * rng.pick(lf) + (int)rng.below(2));
            int v = (int)rng.below(6);
            if (v == 0 && l.size() > 1) l.pop_back();                                 // open chain
            else if (v == 1 && !l.empty()) l.push_back(l[rng.below(l.size())]);       // repeated halfedge
            else if (v == 2 && l.size() > 2) std::swap(l[0], l[1]);                   // wrong order
            else if (v == 3 && !l.empty()) l[rng.below(l.size())] ^= 1;               // one halfedge reversed
            else if (v == 4) std::rotate(l.begin(), l.begin() + rng.below(l.size() ? l.size() : 1), l.end());  // rotation: still closed
            return l;
        }
        if (mode == 5) { auto lp = e.make_loop(e.face_valence()); e.rescan(); return lp; }   // fresh closed loop
        int n = 1 + (int)rng.below(5);
        for (int i = 0; i < n && !lhe.empty(); ++i) l.push_back(rng.pick(lhe));
        return l;
    }
    void probe_add_face() {
        auto hes = random_halfedge_list();
        e.rescan();
        auto before = snap();
        int n0 = e.s.nf;
        bool valence_ok = KIND == 0 || (int)hes.size() == (KIND == 1 ? 3 : 4);
        bool expect = closed_loop(hes) && valence_ok;
        std::vector<HalfEdgeHandle> hh; for (int h : hes) hh.emplace_back(h);
        ctx.op("probe add_face(" + ivec(hes) + ",check=true)");
        auto f = e.mesh.add_face(hh, true);
        std::string call = "add_face(" + ivec(hes) + ",check=true)->" + std::to_string(f.idx());
        ctx.cls(std::string("add_face:") + (hes.empty() ? "empty" : expect ? "closed" : !valence_ok ? "wrong-valence" : "open"));
        if (!expect) {
            VF_CHECK(!f.is_valid(), "oracle:add_face.accepted-invalid", call << ": the halfedges do not form a closed loop" << (valence_ok ? "" : " of the kernel's valence") << " but the face was accepted");
            expect_unchanged(before, call, "rejected add_face");
        } else {
            VF_CHECK(f.idx() == n0, "oracle:add_face.rejected-valid", call << ": closed loop was rejected");
            e.adopt_new(e.s.nv, e.s.ne, n0, e.s.nc); e.rescan();
            VF_CHECK(e.s.fhe[n0] == hes, "oracle:add_face.def", call << " stored " << ivec(e.s.fhe[n0]));
            accepted_rest_unchanged(before, 2);
        }
    }
    std::vector<int> random_halfface_list(std::string &cls) {
        std::vector<int> lhf; for (int x : e.live_f()) { lhf.push_back(2 * x); lhf.push_back(2 * x + 1); }
        int mode = (int)rng.below(10);
        auto lc = e.live_c();
        cls = "random";
        if (mode == 0) { cls = "empty"; return {}; }
        if (mode <= 5) {
            // a fresh closed surface next to the existing cells, then damaged in a specific way
            const auto &T = cell_templates();
            int ti = KIND == 1 ? 0 : KIND == 2 ? 1 : (int)rng.below(T.size());
            auto vmap = e.choose_cell_vertices(T[ti]);
            auto l = e.realise_template(T[ti], vmap);
            e.rescan();
            if (l.empty()) return l;
            int v = (int)rng.below(8);
            if (v == 0) { cls = "closed"; }
            else if (v == 1) { l.erase(l.begin() + rng.below(l.size())); cls = "missing-face"; }
            else if (v == 2) { l.push_back(l[rng.below(l.size())]); cls = "doubled-face"; }
            else if (v == 3) { l[rng.below(l.size())] ^= 1; cls = "one-flipped"; }
            else if (v == 4) { for (auto &x : l) x ^= 1; cls = "all-flipped(closed)"; }
            else if (v == 5) { rng.shuffle(l); cls = "permuted(closed)"; }
            else if (v == 6 && KIND == 0) { const auto &t2 = T[rng.below(T.size())]; auto vm2 = e.choose_cell_vertices(t2); auto l2 = e.realise_template(t2, vm2); e.rescan(); l.insert(l.end(), l2.begin(), l2.end()); cls = "two-closed-surfaces"; }
            else if (!lhf.empty()) { l.push_back(rng.pick(lhf)); cls = "extra-face"; }
            // damaged lists in arbitrary order as well (the hex kernel re-orders non-canonical lists before checking them);
            // hex: a face of the surface replaced by a foreign quad keeps the length at six
            if (KIND == 2 && v != 0 && v != 4 && v != 5 && rng.chance(1, 3) && !lhf.empty() && l.size() >= 2) {
                size_t i = rng.below(l.size()), j = (i + 1 + rng.below(l.size() - 1)) % l.size();
                if (rng.chance(1, 2)) { l[i] = rng.pick(lhf); cls += "+foreign-face"; } else { l[i] = l[j] ^ 1; cls += "+face-replaced-by-the-other-side-of-another"; }
                if (l.size() > 6) l.resize(6); }
            if (v != 0 && v != 4 && v != 5 && rng.chance(1, 2)) { rng.shuffle(l); cls += "+shuffled"; }
            return l;
        }
        if (mode == 6 || (mode == 7 && lc.empty())) {
            // 1-3 fresh polygons whose edges are created one after the other with random orientations (so that the
            // halfedges of an open set form arbitrary index patterns), submitted one-sided (open) or two-sided (closed)
            int npoly = 1 + (int)rng.below(3); std::vector<int> l; bool all_two_sided = true;
            for (int q = 0; q < npoly; ++q) {
                int n = KIND == 1 ? 3 : KIND == 2 ? 4 : 2 + (int)rng.below(5);
                if (n == 2 && !e.cfg.allow_dups) n = 3;
                std::vector<int> vs; for (int i = 0; i < n; ++i) vs.push_back(e.op_add_vertex());
                std::vector<int> hes;
                for (int i = 0; i < n; ++i) { int a = vs[i], b = vs[(i + 1) % n]; bool rev = rng.chance(1, 2); int h = e.op_add_edge(rev ? b : a, rev ? a : b, n == 2); hes.push_back(rev ? h ^ 1 : h); }
                int f = e.op_add_face(hes, false);
                bool two = rng.chance(1, 3); all_two_sided &= two;
                l.push_back(2 * f + (int)rng.below(2)); if (two) l.push_back(l.back() ^ 1);
            }
            e.rescan();
            cls = all_two_sided ? "fresh-polygons-two-sided(closed)" : "fresh-polygons-open";
            return l;
        }
        if (mode <= 7 && !lc.empty()) { cls = "existing-cell's-faces"; return e.s.chf[rng.pick(lc)]; }
        std::vector<int> l; int n = 1 + (int)rng.below(7);
        for (int i = 0; i < n && !lhf.empty(); ++i) l.push_back(rng.pick(lhf));
        return l;
    }
    void probe_add_cell() {
        std::string cls;
        auto hfs = random_halfface_list(cls);
        e.rescan();
        // precondition of the property family: no halfface may end up in two live cells -> only free halffaces
        // (a list that must be rejected anyway may contain occupied halffaces: nothing is added)
        { bool occupied = false; for (int hf : hfs) occupied |= !e.s.hf_cells[hf].empty();
          bool so = true;
          if (KIND == 1) { so = hfs.size() == 4; for (int hf : hfs) so &= e.s.fhe[hf >> 1].size() == 3; }
          if (KIND == 2) { so = hfs.size() == 6; for (int hf : hfs) so &= e.s.fhe[hf >> 1].size() == 4; }
          if (occupied && closed_surface(hfs) && so) return;
          if (occupied) cls += "+occupied"; }
        auto before = snap();
        int n0 = e.s.nc;
        bool shape_ok = true;
        if (KIND == 1) { shape_ok = hfs.size() == 4; for (int hf : hfs) shape_ok &= e.s.fhe[hf >> 1].size() == 3; }
        if (KIND == 2) { shape_ok = hfs.size() == 6; for (int hf : hfs) shape_ok &= e.s.fhe[hf >> 1].size() == 4; }
        bool closed = closed_surface(hfs);
        bool expect = closed && shape_ok;
        std::vector<HalfFaceHandle> hh; for (int h : hfs) hh.emplace_back(h);
        ctx.op("probe add_cell(" + ivec(hfs) + ",check=true)[" + cls + "]");
        auto c = e.mesh.add_cell(hh, true);
        std::string call = "add_cell(" + ivec(hfs) + ",check=true)->" + std::to_string(c.idx());
        ctx.cls("add_cell:" + cls + (expect ? "" : "!"));
        if (!expect) {
            VF_CHECK(!c.is_valid(), "oracle:add_cell.accepted-invalid", call << " [" << cls << "]: the halffaces do not form a closed surface with every halfedge matched exactly once by its opposite" << (shape_ok ? "" : " / wrong valence for this kernel") << ", but the cell was accepted");
            expect_unchanged(before, call, "rejected add_cell");
        } else if (KIND == 2 && !c.is_valid()) {
            // the hex kernel may reject a permuted valid list, but then it must leave the mesh unchanged (C16)
            ctx.cls("add_cell:hex-rejected-permutation");
            expect_unchanged(before, call, "rejected add_cell (hex ordering)");
        } else {
            VF_CHECK(c.idx() == n0, "oracle:add_cell.rejected-valid", call << " [" << cls << "]: closed surface was rejected");
            e.adopt_new(e.s.nv, e.s.ne, e.s.nf, n0); e.rescan();
            if (KIND == 2) VF_CHECK(sorted(e.s.chf[n0]) == sorted(hfs), "oracle:add_cell.def", call << " stored " << ivec(e.s.chf[n0]));
            else VF_CHECK(e.s.chf[n0] == hfs, "oracle:add_cell.def", call << " stored " << ivec(e.s.chf[n0]));
            accepted_rest_unchanged(before, 3);
        }
    }
    void run(int n) {
        for (int i = 0; i < n; ++i) {
            int k = (int)rng.below(10);
            if (k < 3) probe_add_edge(); else if (k < 6) probe_add_face(); else probe_add_cell();
            e.rescan();
        }
    }
};
template <class K> static void run_c11(Ctx &ctx, EngCfg g, int probes) {
    Engine<K> e(ctx, g);
    e.run();
    C11Probe<K> p(e);
    p.run(probes);
}
static CaseFn mk_c11(const Args &a) {
    int steps = (int)a.num("steps", a.tier == "thorough" ? 40 : 16);
    int probes = (int)a.num("probes", 40);
    return [=](Ctx &ctx) {
        EngCfg g; g.chk_model = false; g.steps = steps; g.allow_set = false; g.allow_clear = false; g.allow_props = true; g.w_prop = 2;
        g.init_mode = (ctx.case_no % 2) ? 1 : -1;    // deferred-deleted look-alikes present
        if (ctx.case_no % 3 == 0) g.init_bu = (int)ctx.rng.below(8) & ~1; // without vertex incidences
        g.allow_toggle_bu = false;
        int k = (int)(ctx.case_no % 5);
        if (k == 3) run_c11<TetK>(ctx, g, probes); else if (k == 4) run_c11<HexK>(ctx, g, probes); else run_c11<PolyK>(ctx, g, probes);
    };
}
VF_REGISTER("C11", mk_c11);
} // namespace vf
