// C09 oracle: rotational order of halffaces around single-fan edges, in-cell adjacency.
#pragma once
#include "oracle_inc.hh"

namespace vf {

// unique halfface g of hf's cell with g != hf, g != opp(hf), containing opp(h); -1 none, -2 ambiguous
inline int adj_bf(const Scan &s, int hf, int h) {
    int c = s.cell_of(hf);
    if (c < 0) return -1;
    int found = -1;
    for (int g : s.chf[c]) {
        if (g == hf || g == (hf ^ 1)) continue;
        auto hes = s.hf_hes(g);
        int cntk = (int)std::count(hes.begin(), hes.end(), h ^ 1);
        if (cntk == 0) continue;
        if (found != -1 || cntk > 1) return -2;
        found = g;
    }
    return found;
}

// returns true if edge e (halfedge h = 2e) is a single fan; fills `next` (successor per halfface containing h)
inline bool single_fan(const Scan &s, int h, std::map<int, int> &next) {
    const auto &H = s.he_hf[h];
    std::set<int> nodes(H.begin(), H.end());
    if (nodes.size() != H.size() || H.empty()) return false;   // a face lists the edge twice
    for (int hf : H) if (std::find(H.begin(), H.end(), hf ^ 1) != H.end()) return false;  // face contains h and opp(h)
    for (int hf : H) if (s.hf_cells[hf].size() > 1 || s.hf_cells[hf ^ 1].size() > 1) return false;
    std::set<int> succs; int nboundary = 0;
    for (int hf : H) {
        if (s.hf_boundary(hf)) { ++nboundary; continue; }
        // the halfface must list h exactly once inside a well-formed cell
        int g = adj_bf(s, hf, h);
        if (g < 0) return false;
        int nx = g ^ 1;
        if (!nodes.count(nx)) return false;
        if (!succs.insert(nx).second) return false;   // two predecessors
        next[hf] = nx;
    }
    // predecessor consistency: x has a predecessor iff opp(x) is inside a cell
    if (nboundary == 0) {
        // must be ONE cycle through all nodes
        int cur = H[0]; size_t steps = 0;
        do { cur = next[cur]; ++steps; } while (cur != H[0] && steps <= H.size());
        return steps == H.size();
    }
    if (nboundary != 1) return false;
    // one path: the unique start has no predecessor
    std::vector<int> starts;
    for (int hf : H) if (!succs.count(hf)) starts.push_back(hf);
    if (starts.size() != 1) return false;
    if (!s.hf_boundary(starts[0] ^ 1)) return false;
    int cur = starts[0]; size_t steps = 1;
    while (next.count(cur) && steps <= H.size()) { cur = next[cur]; ++steps; }
    return steps == H.size() && s.hf_boundary(cur);
}

template <class M>
void check_fan_order(const M &m, const Scan &s) {
    if (!m.has_edge_bottom_up_incidences() || !m.has_face_bottom_up_incidences() || s.multi_cell_hf) return;
    for (int e = 0; e < s.ne; ++e) {
        if (s.edel[e]) continue;
        int h = 2 * e;
        std::map<int, int> next;
        if (!single_fan(s, h, next)) { cur()->cnt.add("fan.not-single"); continue; }
        auto L = collect(m.halfedge_halffaces(HalfEdgeHandle(h)));
        int n = (int)L.size();
        bool hasb = false; for (int x : L) hasb |= s.hf_boundary(x);
        cur()->cnt.add(hasb ? "fan.boundary" : "fan.interior");
        cur()->cnt.add("fan.valence-sum", n);
        if (n >= 3) cur()->cnt.add("fan.valence>=3");
        VF_CHECK(sorted(L) == sorted(s.he_hf[h]), "oracle:fan.set", "edge " << e << " halffaces " << ivec(L) << " scan " << ivec(s.he_hf[h]));
        for (int i = 0; i < n; ++i) {
            if (s.hf_boundary(L[i])) VF_CHECK(i == n - 1, "oracle:fan.boundary-not-last", "edge " << e << ": boundary halfface " << L[i] << " at position " << i << " of " << ivec(L));
            else VF_CHECK(L[(i + 1) % n] == next[L[i]], "oracle:fan.order", "edge " << e << ": after " << L[i] << " comes " << L[(i + 1) % n] << " expected " << next[L[i]] << " in " << ivec(L));
        }
        auto Lo = collect(m.halfedge_halffaces(HalfEdgeHandle(h ^ 1)));
        std::vector<int> mir(L.rbegin(), L.rend()); for (auto &x : mir) x ^= 1;
        VF_CHECK(Lo == mir, "oracle:fan.mirror", "edge " << e << ": opposite halfedge reports " << ivec(Lo) << " expected mirrored reverse " << ivec(mir));
        // cells follow the same order (deduplicated)
        std::vector<int> cells; for (int x : L) { int c = s.cell_of(x); if (c >= 0 && std::find(cells.begin(), cells.end(), c) == cells.end()) cells.push_back(c); }
        VF_CHECK(collect(m.halfedge_cells(HalfEdgeHandle(h))) == cells, "oracle:fan.cells-order", "edge " << e << " halfedge_cells " << ivec(collect(m.halfedge_cells(HalfEdgeHandle(h)))) << " expected " << ivec(cells));
        VF_CHECK(collect(m.edge_cells(EdgeHandle(e))) == cells, "oracle:fan.edge-cells-order", "edge " << e);
    }
}

template <class M>
void check_adjacent_in_cell(const M &m, const Scan &s) {
    if (!m.has_face_bottom_up_incidences() || s.multi_cell_hf) return;
    for (int c = 0; c < s.nc; ++c) {
        if (s.cdel[c]) continue;
        for (int hf : s.chf[c]) {
            auto hes = s.hf_hes(hf);
            for (int h : hes) {
                if (std::count(hes.begin(), hes.end(), h) != 1 || std::count(hes.begin(), hes.end(), h ^ 1) != 0) continue;
                int g = adj_bf(s, hf, h);
                if (g == -2) { cur()->cnt.add("adj.ambiguous"); continue; }
                int lib = m.adjacent_halfface_in_cell(HalfFaceHandle(hf), HalfEdgeHandle(h)).idx();
                cur()->cnt.add("adj.queries");
                VF_CHECK(lib == g, "oracle:adjacent_halfface_in_cell", "cell " << c << " halfface " << hf << " halfedge " << h << ": library " << lib << " brute force " << g);
                int lib2 = m.adjacent_halfface_in_cell(HalfFaceHandle(hf), HalfEdgeHandle(h ^ 1)).idx();
                VF_CHECK(lib2 == g, "oracle:adjacent_halfface_in_cell.opposite-halfedge", "cell " << c << " halfface " << hf << " halfedge " << (h ^ 1) << " (other orientation): library " << lib2 << " brute force " << g);
                if (g >= 0 && adj_bf(s, g, h ^ 1) == hf) {
                    int back = m.adjacent_halfface_in_cell(HalfFaceHandle(g), HalfEdgeHandle(h ^ 1)).idx();
                    VF_CHECK(back == hf, "oracle:adjacent_halfface_in_cell.involution", "cell " << c << ": " << hf << " -> " << g << " -> " << back);
                    if (std::find(s.chf[c].begin(), s.chf[c].end(), hf ^ 1) != s.chf[c].end()) cur()->cls("adjacency:cell-with-both-halffaces");
                }
            }
        }
    }
}

} // namespace vf
