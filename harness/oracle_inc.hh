// C01 oracle: every upward query of the library vs. the brute-force scan; cache shape.
#pragma once
#include "meshwrap.hh"

namespace vf {

inline std::string ivec(const std::vector<int> &v) { return vec_str(v); }

#define INC_EQ(lib, ref, what, center) do { \
    cur()->cnt.add("queries"); \
    auto _l = (lib); auto _r = (ref); \
    if (_l != _r) VF_FAIL(std::string("oracle:") + what, what << " center=" << (center) << " library=" << ivec(_l) << " scan=" << ivec(_r)); \
  } while (0)

template <class M>
void check_cache_shape(const M &m, const Scan &s) {
    if (m.has_vertex_bottom_up_incidences()) {
        const auto &c = m.cache_v();
        VF_CHECK((int)c.size() == s.nv, "oracle:cache_v.size", "outgoing cache has " << c.size() << " slots for " << s.nv << " vertices");
        for (int v = 0; v < s.nv; ++v) {
            std::vector<int> l;
            for (auto h : c[v]) {
                int i = h.idx();
                VF_CHECK(i >= 0 && i < 2 * s.ne, "oracle:cache_v.range", "vertex " << v << " lists halfedge " << i << " of " << 2 * s.ne);
                VF_CHECK(!s.edel[i >> 1], "oracle:cache_v.deleted", "vertex " << v << " lists halfedge " << i << " of a deleted edge");
                l.push_back(i);
            }
            if (!s.vdel[v]) INC_EQ(sorted(l), sorted(s.out_he[v]), "cache_v.content", v);
        }
    }
    if (m.has_edge_bottom_up_incidences()) {
        const auto &c = m.cache_e();
        VF_CHECK((int)c.size() == 2 * s.ne, "oracle:cache_e.size", "halfface cache has " << c.size() << " slots for " << 2 * s.ne << " halfedges");
        for (int h = 0; h < 2 * s.ne; ++h) {
            std::vector<int> l;
            for (auto hf : c[h]) {
                int i = hf.idx();
                VF_CHECK(i >= 0 && i < 2 * s.nf, "oracle:cache_e.range", "halfedge " << h << " lists halfface " << i << " of " << 2 * s.nf);
                VF_CHECK(!s.fdel[i >> 1], "oracle:cache_e.deleted", "halfedge " << h << " lists halfface " << i << " of a deleted face");
                l.push_back(i);
            }
            if (!s.edel[h >> 1]) INC_EQ(sorted(l), sorted(s.he_hf[h]), "cache_e.content", h);
        }
    }
    if (m.has_face_bottom_up_incidences()) {
        const auto &c = m.cache_f();
        VF_CHECK((int)c.size() == 2 * s.nf, "oracle:cache_f.size", "cell cache has " << c.size() << " slots for " << 2 * s.nf << " halffaces");
        for (int hf = 0; hf < 2 * s.nf; ++hf) {
            int i = c[hf].idx();
            VF_CHECK(i >= -1 && i < s.nc, "oracle:cache_f.range", "halfface " << hf << " names cell " << i << " of " << s.nc);
            if (i >= 0) VF_CHECK(!s.cdel[i], "oracle:cache_f.deleted", "halfface " << hf << " names deleted cell " << i);
            if (!s.fdel[hf >> 1]) VF_CHECK(i == s.cell_of(hf), "oracle:cache_f.content", "halfface " << hf << " cache=" << i << " scan=" << s.cell_of(hf));
        }
    }
}

// All upward queries of live entities against the scan. Queries are only issued for kinds
// whose incidences are enabled (C12 covers the disabled case).
template <class M>
void check_incidences(const M &m, const Scan &s) {
    const bool V = m.has_vertex_bottom_up_incidences();
    const bool E = m.has_edge_bottom_up_incidences();
    const bool F = m.has_face_bottom_up_incidences();
    if (s.multi_cell_hf) { cur()->cls("multi-cell-halfface(skipped)"); return; }
    check_cache_shape(m, s);

    if (V) for (int v = 0; v < s.nv; ++v) {
        if (s.vdel[v]) continue;
        VertexHandle vh(v);
        std::vector<int> out = s.out_he[v], in, vv, vedges;
        for (int h : out) { in.push_back(h ^ 1); vv.push_back(s.to(h)); vedges.push_back(h >> 1); }
        INC_EQ(sorted(collect(m.outgoing_halfedges(vh))), sorted(out), "outgoing_halfedges", v);
        INC_EQ(sorted(collect(m.incoming_halfedges(vh))), sorted(in), "incoming_halfedges", v);
        INC_EQ(sorted(collect(m.vertex_vertices(vh))), sorted(vv), "vertex_vertices", v);
        INC_EQ(sorted(collect(m.vertex_edges(vh))), sorted(vedges), "vertex_edges", v);
        VF_CHECK(m.valence(vh) == out.size(), "oracle:valence(v)", "vertex " << v << " valence " << m.valence(vh) << " scan " << out.size());
        cur()->cnt.add("queries");
        if (E) {
            std::vector<int> vf, vhf;
            for (int h : out) for (int hf : s.he_hf[h]) { vf.push_back(hf >> 1); vhf.push_back(hf); vhf.push_back(hf ^ 1); }
            if (F) INC_EQ(collect(m.vertex_faces(vh)), uniq(vf), "vertex_faces", v);  // needs full incidences
            INC_EQ(collect(m.vertex_halffaces(vh)), uniq(vhf), "vertex_halffaces", v);
            if (F) {
                std::vector<int> vc;
                for (int h : out) for (int hf : s.he_hf[h]) if (s.cell_of(hf) >= 0) vc.push_back(s.cell_of(hf));
                INC_EQ(collect(m.vertex_cells(vh)), uniq(vc), "vertex_cells", v);
                VF_CHECK(m.is_boundary(vh) == s.v_boundary(v), "oracle:is_boundary(v)", "vertex " << v << " library " << m.is_boundary(vh) << " scan " << s.v_boundary(v));
                cur()->cnt.add("queries");
            }
        }
    }
    if (E) for (int h = 0; h < 2 * s.ne; ++h) {
        if (s.edel[h >> 1]) continue;
        HalfEdgeHandle hh(h);
        std::vector<int> hfs = s.he_hf[h], faces;
        for (int hf : hfs) faces.push_back(hf >> 1);
        INC_EQ(sorted(collect(m.halfedge_halffaces(hh))), sorted(hfs), "halfedge_halffaces", h);
        INC_EQ(collect(m.halfedge_faces(hh)), uniq(faces), "halfedge_faces", h);
        if ((h & 1) == 0) {
            EdgeHandle eh(h >> 1);
            std::vector<int> ehf;
            for (int hf : hfs) { ehf.push_back(hf); ehf.push_back(hf ^ 1); }
            INC_EQ(sorted(collect(m.edge_halffaces(eh))), sorted(ehf), "edge_halffaces", h >> 1);
            INC_EQ(collect(m.edge_faces(eh)), uniq(faces), "edge_faces", h >> 1);
            VF_CHECK(m.valence(eh) == hfs.size(), "oracle:valence(e)", "edge " << (h >> 1) << " valence " << m.valence(eh) << " scan " << hfs.size());
            cur()->cnt.add("queries");
        }
        if (F) {
            std::vector<int> cells;
            for (int hf : hfs) if (s.cell_of(hf) >= 0) cells.push_back(s.cell_of(hf));
            INC_EQ(uniq(collect(m.halfedge_cells(hh))), uniq(cells), "halfedge_cells", h);
            {   // no duplicates in the library's answer
                auto l = collect(m.halfedge_cells(hh));
                VF_CHECK(l.size() == uniq(l).size(), "oracle:halfedge_cells.dup", "halfedge " << h << " cells " << ivec(l));
            }
            VF_CHECK(m.is_boundary(hh) == s.he_boundary(h), "oracle:is_boundary(he)", "halfedge " << h << " library " << m.is_boundary(hh) << " scan " << s.he_boundary(h));
            cur()->cnt.add("queries");
            if ((h & 1) == 0) {
                EdgeHandle eh(h >> 1);
                INC_EQ(uniq(collect(m.edge_cells(eh))), uniq(cells), "edge_cells", h >> 1);
                VF_CHECK(m.is_boundary(eh) == s.he_boundary(h), "oracle:is_boundary(e)", "edge " << (h >> 1) << " library " << m.is_boundary(eh) << " scan " << s.he_boundary(h));
                cur()->cnt.add("queries");
            }
        }
    }
    if (F) {
        for (int hf = 0; hf < 2 * s.nf; ++hf) {
            if (s.fdel[hf >> 1]) continue;
            HalfFaceHandle h(hf);
            VF_CHECK(m.incident_cell(h).idx() == s.cell_of(hf), "oracle:incident_cell", "halfface " << hf << " library " << m.incident_cell(h).idx() << " scan " << s.cell_of(hf));
            VF_CHECK(m.is_boundary(h) == s.hf_boundary(hf), "oracle:is_boundary(hf)", "halfface " << hf);
            cur()->cnt.add("queries", 2);
            if ((hf & 1) == 0) {
                FaceHandle fh(hf >> 1);
                auto fc = m.face_cells(fh);
                VF_CHECK(fc[0].idx() == s.cell_of(hf) && fc[1].idx() == s.cell_of(hf ^ 1), "oracle:face_cells", "face " << (hf >> 1));
                VF_CHECK(m.is_boundary(fh) == s.f_boundary(hf >> 1), "oracle:is_boundary(f)", "face " << (hf >> 1));
                cur()->cnt.add("queries", 2);
            }
        }
        for (int c = 0; c < s.nc; ++c) {
            if (s.cdel[c]) continue;
            CellHandle ch(c);
            std::vector<int> cc;
            for (int hf : s.chf[c]) if (s.cell_of(hf ^ 1) >= 0) cc.push_back(s.cell_of(hf ^ 1));
            INC_EQ(collect(m.cell_cells(ch)), uniq(cc), "cell_cells", c);
            VF_CHECK(m.is_boundary(ch) == s.c_boundary(c), "oracle:is_boundary(c)", "cell " << c);
            cur()->cnt.add("queries");
        }
    }
    // boundary iterators (ascending lists of the live boundary entities)
    auto blist = [&](int n, const std::vector<char> &del, int div, auto pred) {
        std::vector<int> r;
        for (int i = 0; i < n; ++i) if (!del[i / div] && pred(i)) r.push_back(i);
        return r;
    };
    if (F) {
        INC_EQ(collect_valid(m.bhf_iter()), blist(2 * s.nf, s.fdel, 2, [&](int i) { return s.hf_boundary(i); }), "bhf_iter", "-");
        INC_EQ(collect_valid(m.bf_iter()), blist(s.nf, s.fdel, 1, [&](int i) { return s.f_boundary(i); }), "bf_iter", "-");
        INC_EQ(collect_valid(m.bc_iter()), blist(s.nc, s.cdel, 1, [&](int i) { return s.c_boundary(i); }), "bc_iter", "-");
    }
    if (E && F) {
        INC_EQ(collect_valid(m.bhe_iter()), blist(2 * s.ne, s.edel, 2, [&](int i) { return s.he_boundary(i); }), "bhe_iter", "-");
        INC_EQ(collect_valid(m.be_iter()), blist(s.ne, s.edel, 1, [&](int i) { return s.he_boundary(2 * i); }), "be_iter", "-");
    }
    if (V && E && F) {
        INC_EQ(collect_valid(m.bv_iter()), blist(s.nv, s.vdel, 1, [&](int i) { return s.v_boundary(i); }), "bv_iter", "-");
    }
}

} // namespace vf
