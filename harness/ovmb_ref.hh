// Independent OVMB decoder / encoder written from extra/ovmb-kaitai/ovmb.ksy and the documented
// "all integers little endian" rule. Uses NO OpenVolumeMesh I/O code.
#pragma once
#include "io_common.hh"

namespace vf {

inline std::string unhex(const std::string &h) { std::string o; auto v = [](char c) { return c <= '9' ? c - '0' : c - 'a' + 10; }; for (size_t i = 0; i + 1 < h.size(); i += 2) o += (char)(v(h[i]) * 16 + v(h[i + 1])); return o; }

struct ByteReader {
    const std::string &b; size_t pos, end; bool ok = true;
    ByteReader(const std::string &s, size_t p, size_t e) : b(s), pos(p), end(e) {}
    bool need(size_t n) { if (pos + n > end || pos + n < pos) { ok = false; return false; } return true; }
    uint64_t u(int n) { if (!need(n)) return 0; uint64_t v = 0; for (int i = 0; i < n; ++i) v |= (uint64_t)(unsigned char)b[pos + i] << (8 * i); pos += n; return v; }
    std::string bytes(size_t n) { if (!need(n)) return ""; std::string r = b.substr(pos, n); pos += n; return r; }
    size_t left() const { return end - pos; }
};

struct RefChunk { std::string type; int version = 0, padding = 0, compression = 0, flags = 0; uint64_t file_length = 0; size_t hdr_off = 0, body_off = 0, body_len = 0; };
struct RefDirEntry { int entity; std::string name, type, def; };
struct RefFile {
    bool ok = false; std::string err;
    int file_version = 0, header_version = 0, vertex_dim = 0, topo_type = 0; uint64_t n[4] = {0, 0, 0, 0};
    std::vector<RefChunk> chunks;
};

// framing: header + chunk list
inline RefFile ref_parse(const std::string &s) {
    RefFile f;
    static const unsigned char magic[8] = {'O', 'V', 'M', 'B', 0xa, 0xd, 0xa, 0xff};
    ByteReader r(s, 0, s.size());
    if (s.size() < 48 || memcmp(s.data(), magic, 8) != 0) { f.err = "bad magic / short header"; return f; }
    r.pos = 8; f.file_version = (int)r.u(1); f.header_version = (int)r.u(1); f.vertex_dim = (int)r.u(1); f.topo_type = (int)r.u(1);
    if (r.u(4) != 0) { f.err = "reserved header bytes not zero"; return f; }
    for (auto &x : f.n) x = r.u(8);
    if (f.topo_type > 2) { f.err = "bad topo type"; return f; }
    while (r.pos < s.size()) {
        RefChunk c; c.hdr_off = r.pos;
        if (!r.need(16)) { f.err = "truncated chunk header"; return f; }
        c.type = r.bytes(4); c.version = (int)r.u(1); c.padding = (int)r.u(1); c.compression = (int)r.u(1); c.flags = (int)r.u(1); c.file_length = r.u(8);
        if ((uint64_t)c.padding > c.file_length || c.file_length > r.left()) { f.err = "chunk length/padding inconsistent"; return f; }
        c.body_off = r.pos; c.body_len = (size_t)(c.file_length - c.padding);
        for (size_t i = c.body_off + c.body_len; i < c.body_off + c.file_length; ++i) if (s[i] != 0) { f.err = "padding not zero"; return f; }
        r.pos += (size_t)c.file_length;
        f.chunks.push_back(c);
    }
    f.ok = true; return f;
}

inline int ref_elem_size(const std::string &t) {
    static const std::map<std::string, int> m = {{"u8", 1}, {"u16", 2}, {"u32", 4}, {"u64", 8}, {"i8", 1}, {"i16", 2}, {"i32", 4}, {"i64", 8}, {"f", 4}, {"d", 8},
        {"vh", 4}, {"eh", 4}, {"heh", 4}, {"fh", 4}, {"hfh", 4}, {"ch", 4}, {"2d", 16}, {"3d", 24}, {"4d", 32}, {"2f", 8}, {"3f", 12}, {"4f", 16},
        {"2u32", 8}, {"3u32", 12}, {"4u32", 16}, {"2i32", 8}, {"3i32", 12}, {"4i32", 16}};
    auto it = m.find(t); return it == m.end() ? -1 : it->second;
}
// payload of `count` elements of type t -> canonical element strings; false if the payload does not match
inline bool ref_decode_elems(const std::string &t, const std::string &data, size_t count, std::vector<std::string> &out) {
    ByteReader r(data, 0, data.size());
    if (t == "b") { if (data.size() != (count + 7) / 8) return false; for (size_t i = 0; i < count; ++i) out.push_back(((unsigned char)data[i / 8] >> (i % 8)) & 1 ? "01" : "00");
        return true; }
    if (t == "s32") { for (size_t i = 0; i < count; ++i) { uint64_t l = r.u(4); std::string b = r.bytes((size_t)l); if (!r.ok) return false; out.push_back("s" + hex(b.data(), b.size())); } return r.left() == 0; }
    int es = ref_elem_size(t); if (es < 0 || data.size() != count * (size_t)es) return false;
    for (size_t i = 0; i < count; ++i) out.push_back(hex(data.data() + i * es, es));
    return true;
}
// the description treats the serialized default as opaque bytes: it only has to START with one encoded value
inline bool ref_decode_default(const std::string &t, const std::string &data, std::string &out) {
    if (t == "b") { if (data.size() < 1 || (unsigned char)data[0] > 1) return false; out = data[0] ? "01" : "00"; return true; }
    if (t == "s32") { ByteReader r(data, 0, data.size()); uint64_t l = r.u(4); std::string b = r.bytes((size_t)l); if (!r.ok) return false; out = "s" + hex(b.data(), b.size()); return true; }
    int es = ref_elem_size(t); if (es < 0 || data.size() < (size_t)es) return false;
    out = hex(data.data(), es); return true;
}

// full interpretation of a file into the canonical mesh form
inline bool ref_to_canon(const std::string &s, Canon &c, std::string &err) {
    RefFile f = ref_parse(s);
    if (!f.ok) { err = f.err; return false; }
    if (f.header_version != 1 || f.vertex_dim != 3) { err = "unsupported header"; return false; }
    c = Canon(); c.topo_type = f.topo_type;
    uint64_t rd[4] = {0, 0, 0, 0};
    std::vector<RefDirEntry> dir; bool have_dir = false, eof = false;
    std::vector<std::vector<std::string>> pvals;
    // edge/face/cell counts must be matched exactly by the chunks, so absurd values are certainly inconsistent;
    // a large vertex count alone is not (positions are optional): such files are not judged ("accepted") here
    for (int k = 1; k < 4; ++k) if (f.n[k] > 2000000ULL) { err = "entity count mismatch (absurd)"; return false; }
    if (f.n[0] > 2000000ULL) return true;
    c.pos.assign((size_t)f.n[0], led(0) + led(0) + led(0));
    for (auto &ch : f.chunks) {
        if (eof) { err = "chunk after EOF"; return false; }
        if (ch.compression != 0) { err = "compression"; return false; }
        if (ch.version != 0) { if (ch.flags & 1) { err = "unsupported mandatory chunk version"; return false; } continue; }
        ByteReader r(s, ch.body_off, ch.body_off + ch.body_len);
        if (ch.type == "EOF ") { if (ch.body_len) { err = "EOF with payload"; return false; } eof = true; }
        else if (ch.type == "VERT") {
            uint64_t base = r.u(8), cnt = r.u(4); int enc = (int)r.u(1); if (r.u(3) != 0 || !r.ok) { err = "VERT header"; return false; }
            if (base != rd[0] || cnt > f.n[0] - rd[0] || (enc != 1 && enc != 2)) { err = "VERT span/encoding"; return false; }
            if (r.left() != cnt * 3 * (enc == 1 ? 4 : 8)) { err = "VERT size"; return false; }
            for (uint64_t i = 0; i < cnt; ++i) { std::string p; for (int d = 0; d < 3; ++d) { if (enc == 2) { uint64_t u = r.u(8); double x; memcpy(&x, &u, 8); p += led(x); } else { uint32_t u = (uint32_t)r.u(4); float x; memcpy(&x, &u, 4); p += led((double)x); } } c.pos[(size_t)(base + i)] = p; }
            rd[0] += cnt;
        } else if (ch.type == "TOPO") {
            uint64_t base = r.u(8), cnt = r.u(4); int ent = (int)r.u(1), val = (int)r.u(1), venc = (int)r.u(1), henc = (int)r.u(1); uint64_t off = r.u(8);
            if (!r.ok || ent < 1 || ent > 3 || cnt == 0 || (henc != 1 && henc != 2 && henc != 4)) { err = "TOPO header"; return false; }
            if (base != rd[ent] || cnt > f.n[ent] - rd[ent]) { err = "TOPO span"; return false; }
            std::vector<uint64_t> vals(cnt, (uint64_t)val);
            if (val == 0) { if (venc != 1 && venc != 2 && venc != 4) { err = "valence encoding"; return false; } for (auto &v : vals) v = r.u(venc); } else if (venc != 0) { err = "valence encoding for fixed valence"; return false; }
            uint64_t total = 0; for (auto v : vals) total += v;
            if (!r.ok || r.left() != total * henc) { err = "TOPO size"; return false; }
            for (uint64_t i = 0; i < cnt; ++i) {
                std::vector<int> hs; for (uint64_t k = 0; k < vals[i]; ++k) { uint64_t h = r.u(henc) + off; uint64_t lim = ent == 1 ? rd[0] : ent == 2 ? 2 * rd[1] : 2 * rd[2]; if (h >= lim) { err = "handle out of range"; return false; } hs.push_back((int)h); }
                if (ent == 1) { if (hs.size() != 2) { err = "edge valence"; return false; } c.ev.push_back({hs[0], hs[1]}); } else if (ent == 2) c.fhe.push_back(hs); else c.chf.push_back(hs);
            }
            rd[ent] += cnt;
        } else if (ch.type == "DIRP") {
            if (have_dir) { err = "two DIRP"; return false; } have_dir = true;
            while (r.left() > 0) { RefDirEntry e; e.entity = (int)r.u(1); uint64_t l = r.u(4); e.name = r.bytes((size_t)l); l = r.u(4); e.type = r.bytes((size_t)l); l = r.u(4); e.def = r.bytes((size_t)l);
                if (!r.ok || e.entity > 6) { err = "DIRP entry"; return false; } dir.push_back(e); }
            pvals.resize(dir.size());
            for (auto &e : dir) { CanonProp cp; cp.kind = e.entity; cp.name = e.name; cp.type = e.type;
                if (e.type != "b" && e.type != "s32" && ref_elem_size(e.type) < 0) { cp.has_def = false; c.props[Canon::key(cp.kind, cp.name, "?" + cp.type)] = cp; continue; }   // unknown value type: skippable
                if (!ref_decode_default(e.type, e.def, cp.def)) { err = "default of " + e.name; return false; }
                uint64_t n = e.entity == 0 ? f.n[0] : e.entity == 1 ? f.n[1] : e.entity == 2 ? f.n[2] : e.entity == 3 ? f.n[3] : e.entity == 4 ? 2 * f.n[1] : e.entity == 5 ? 2 * f.n[2] : 1;
                cp.vals.assign((size_t)n, cp.def); c.props[Canon::key(cp.kind, cp.name, cp.type)] = cp; }
        } else if (ch.type == "PROP") {
            uint64_t base = r.u(8), cnt = r.u(4), idx = r.u(4);
            if (!r.ok || idx >= dir.size()) { err = "PROP header"; return false; }
            if (dir[idx].type != "b" && dir[idx].type != "s32" && ref_elem_size(dir[idx].type) < 0) continue;
            auto &cp = c.props[Canon::key(dir[idx].entity, dir[idx].name, dir[idx].type)];
            if (cnt == 0) continue;
            if (base >= cp.vals.size() || cnt > cp.vals.size() - base) { err = "PROP span"; return false; }
            std::vector<std::string> v; if (!ref_decode_elems(dir[idx].type, s.substr(r.pos, r.left()), (size_t)cnt, v)) { err = "PROP payload of " + dir[idx].name; return false; }
            for (uint64_t i = 0; i < cnt; ++i) cp.vals[(size_t)(base + i)] = v[(size_t)i];
        } else if (ch.flags & 1) { err = "unknown mandatory chunk"; return false; }
    }
    if (!eof) { err = "no EOF chunk"; return false; }
    // positions may cover fewer vertices than declared (topology-only meshes have no VERT chunk at all)
    for (int k = 1; k < 4; ++k) if (rd[k] != f.n[k]) { err = "entity count mismatch"; return false; }
    return true;
}

// ---------------------------------------------------------------- encoder with permitted variants
struct RefVariant {
    int max_split = 1;        // arrays are split into 1..max_split spans
    int widen = 0;            // 0 minimal integer width, 1 one step wider, 2 always u32
    bool float_pos = false;   // float positions when every coordinate is exactly representable
    bool force_variable_valence = false;
    bool handle_offset = false;
    bool junk_chunks = false; // unknown, non-mandatory chunks in between
    int order = 0;            // 0 writer's order, 1 properties interleaved right after the arrays they need, 2 DIRP late
    bool odd_padding = false; // padding other than "up to 8"
    int hostile = 0;          // >0: NOT a permitted encoding - some arrays get a span that overlaps, overshoots, leaves a gap or is repeated,
                              //     with a payload that matches the declared count, or a sub-header that contradicts its payload (C07/C18 inputs)
    int hostile_target = -1;  // >=0: only the opportunity with this number is used (one defect per file, so that nothing earlier gets the file rejected)
    mutable int hostile_seen = 0;
    mutable std::string hostile_desc;
    bool hostile_now(Rng &rng, int num, int den) const { if (!hostile) return false; int k = hostile_seen++; return hostile_target >= 0 ? k == hostile_target : rng.chance(num, den); }
    std::string describe() const { std::ostringstream o; o << "split<=" << max_split << ",widen=" << widen << ",floatpos=" << float_pos << ",varvalence=" << force_variable_valence << ",offset=" << handle_offset << ",junk=" << junk_chunks << ",order=" << order << ",oddpad=" << odd_padding; return o.str(); }
};
struct ByteWriter { std::string b; void u(uint64_t v, int n) { for (int i = 0; i < n; ++i) b += (char)((v >> (8 * i)) & 0xff); } void raw(const std::string &s) { b += s; } };

inline std::string ref_chunk(const std::string &type, const std::string &payload, int flags, Rng &rng, bool oddpad) {
    ByteWriter w; size_t pad = (8 - payload.size() % 8) % 8;
    if (oddpad) pad = rng.below(20);
    w.raw(type); w.u(0, 1); w.u(pad, 1); w.u(0, 1); w.u(flags, 1); w.u(payload.size() + pad, 8); w.raw(payload); w.raw(std::string(pad, '\0'));
    return w.b;
}
inline int ref_width(uint64_t maxv, int widen) { int w = maxv < 256 ? 1 : maxv < 65536 ? 2 : 4; if (widen == 1 && w < 4) w *= 2; if (widen == 2) w = 4; return w; }
inline std::vector<std::pair<size_t, size_t>> ref_spans(size_t n, int max_split, Rng &rng) {
    std::vector<std::pair<size_t, size_t>> r; if (n == 0) return r;
    int k = 1 + (int)rng.below(max_split); std::set<size_t> cuts; for (int i = 1; i < k; ++i) cuts.insert(1 + rng.below(n)); cuts.erase(n);
    size_t a = 0; for (size_t c : cuts) { if (c > a) { r.push_back({a, c - a}); a = c; } } r.push_back({a, n - a}); return r;
}
inline std::vector<std::pair<size_t, size_t>> ref_spans_v(size_t n, const RefVariant &v, Rng &rng, const char *what) {
    auto r = ref_spans(n, v.max_split, rng);
    if (r.empty() || !v.hostile_now(rng, 1, 3)) return r;
    size_t j = rng.below(r.size()); size_t k = 1 + rng.below(std::max<size_t>(1, std::min<size_t>(n, 8)));
    std::ostringstream d; d << what << " span " << j << "/" << r.size() << " [" << r[j].first << "+" << r[j].second << "] ";
    switch ((int)rng.below(7)) {
    case 0: r.back().second += k; d << "last span overshoots by " << k; break;
    case 1: { size_t room = n - r.back().first; r.back().second = std::min(n, r.back().second + k + (rng.chance(1, 2) ? 0 : room)); d << "last span count raised to " << r.back().second << " (<= total " << n << ")"; break; }
    case 2: { size_t b = std::min(k, r[j].first); r[j].first -= b; r[j].second += b; d << "starts " << b << " early (overlap)"; break; }
    case 3: r[j].first += k; d << "starts " << k << " late (gap)"; break;
    case 4: r.insert(r.begin() + j, r[j]); d << "repeated"; break;
    case 5: if (r.size() > 1) { size_t o = rng.below(r.size()); std::swap(r[j], r[o]); d << "swapped with span " << o; } else { r[j].first = n + k; d << "moved beyond the array"; } break;
    default: r[j].second = n; d << "count := total " << n; break;
    }
    v.hostile_desc += d.str() + "; ";
    return r;
}
inline std::string ref_encode(const Canon &c, const RefVariant &v, Rng &rng) {
    ByteWriter f;
    auto cl = [](size_t i, size_t n) { return n == 0 ? 0 : std::min(i, n - 1); };   // hostile spans repeat the last element
    static const unsigned char magic[8] = {'O', 'V', 'M', 'B', 0xa, 0xd, 0xa, 0xff};
    f.raw(std::string((const char *)magic, 8)); f.u(1, 1); f.u(1, 1); f.u(3, 1); f.u(c.topo_type, 1); f.u(0, 4);
    f.u(c.pos.size(), 8); f.u(c.ev.size(), 8); f.u(c.fhe.size(), 8); f.u(c.chf.size(), 8);
    auto junk = [&]() { if (v.junk_chunks && rng.chance(1, 2)) { std::string p; int n = (int)rng.below(40); for (int i = 0; i < n; ++i) p += (char)rng.below(256); static const char *ty[] = {"JUNK", "XTRA", "meta"}; f.raw(ref_chunk(ty[rng.below(3)], p, 0, rng, false)); } };
    // property directory
    std::vector<const CanonProp *> plist; for (auto &kv : c.props) plist.push_back(&kv.second);
    auto dirp = [&]() { if (plist.empty()) return; ByteWriter w; for (auto *p : plist) { w.u(p->kind, 1); w.u(p->name.size(), 4); w.raw(p->name); w.u(p->type.size(), 4); w.raw(p->type);
            std::string d = p->type == "b" ? std::string(1, p->def == "01" ? 1 : 0) : p->type == "s32" ? [&] { std::string b = unhex(p->def.substr(1)); ByteWriter x; x.u(b.size(), 4); x.raw(b); return x.b; }() : unhex(p->def);
            w.u(d.size(), 4); w.raw(d); } f.raw(ref_chunk("DIRP", w.b, 1, rng, v.odd_padding)); };
    auto prop_chunks = [&](int entity) { for (size_t pi = 0; pi < plist.size(); ++pi) { auto *p = plist[pi]; if (p->kind != entity) continue;
            const size_t pn = p->vals.size();
            for (auto sp : ref_spans_v(pn, v, rng, "PROP")) { ByteWriter w; w.u(sp.first, 8); w.u(sp.second, 4); w.u(pi, 4);
                if (p->type == "b") { std::string bits((sp.second + 7) / 8, '\0'); for (size_t i = 0; i < sp.second; ++i) if (p->vals[cl(sp.first + i, pn)] == "01") bits[i / 8] |= (char)(1 << (i % 8)); w.raw(bits); }
                else if (p->type == "s32") for (size_t i = 0; i < sp.second; ++i) { std::string b = unhex(p->vals[cl(sp.first + i, pn)].substr(1)); w.u(b.size(), 4); w.raw(b); }
                else for (size_t i = 0; i < sp.second; ++i) w.raw(unhex(p->vals[cl(sp.first + i, pn)]));
                f.raw(ref_chunk("PROP", w.b, 1, rng, v.odd_padding)); junk(); } } };
    bool dir_written = false;
    auto ensure_dir = [&]() { if (!dir_written) { dirp(); dir_written = true; } };
    if (v.order != 2) ensure_dir();
    junk();
    // vertices
    bool fl = v.float_pos;
    if (fl) for (auto &p : c.pos) { std::string b = unhex(p); for (int d = 0; d < 3; ++d) { double x; memcpy(&x, b.data() + 8 * d, 8); if (!((double)(float)x == x) || (x == 0 && std::signbit(x))) fl = false; } }
    for (auto sp : ref_spans_v(c.pos.size(), v, rng, "VERT")) { ByteWriter w; w.u(sp.first, 8); w.u(sp.second, 4);
        int h_enc = fl ? 1 : 2; if (v.hostile_now(rng, 1, 8)) { static const int E[] = {0, 1, 2, 3, 255}; h_enc = E[rng.below(5)]; v.hostile_desc += "VERT header encoding=" + std::to_string(h_enc) + " over a " + (fl ? "float" : "double") + " payload; "; }
        w.u(h_enc, 1); w.u(0, 3);
        for (size_t i = 0; i < sp.second; ++i) { std::string b = unhex(c.pos[cl(sp.first + i, c.pos.size())]); if (!fl) w.raw(b); else for (int d = 0; d < 3; ++d) { double x; memcpy(&x, b.data() + 8 * d, 8); float y = (float)x; uint32_t u; memcpy(&u, &y, 4); w.u(u, 4); } }
        f.raw(ref_chunk("VERT", w.b, 1, rng, v.odd_padding)); junk(); }
    if (v.order == 1) { ensure_dir(); prop_chunks(0); }
    auto topo = [&](int ent, size_t n, auto get) {
        auto getc = get;
        for (auto sp : ref_spans_v(n, v, rng, ent == 1 ? "TOPO(edges)" : ent == 2 ? "TOPO(faces)" : "TOPO(cells)")) {
            auto get = [&](size_t i) { return getc(cl(i, n)); };
            uint64_t maxh = 0, minh = ~0ULL, maxval = 0, minval = ~0ULL;
            for (size_t i = 0; i < sp.second; ++i) { auto hs = get(sp.first + i); maxval = std::max<uint64_t>(maxval, hs.size()); minval = std::min<uint64_t>(minval, hs.size()); for (int h : hs) { maxh = std::max<uint64_t>(maxh, h); minh = std::min<uint64_t>(minh, h); } }
            uint64_t off = (v.handle_offset && minh != ~0ULL) ? minh : 0;
            bool fixed = minval == maxval && maxval > 0 && maxval < 256 && !v.force_variable_valence;
            if (ent == 1) fixed = true;
            int hw = ref_width(maxh - off, v.widen), vw = ref_width(maxval, v.widen);
            ByteWriter w;
            uint64_t h_val = fixed ? maxval : 0, h_venc = fixed ? 0 : vw, h_henc = hw; int pm = 0;
            if (v.hostile_now(rng, 1, 4)) {
                // header fields that contradict each other or the payload (which stays laid out as computed, or is cut down):
                // classes {variable, fixed valence} x {no, valid, invalid valence encoding} x {same, none, other, invalid handle encoding} x payload layout
                static const int VAL[] = {1, 2, 3, 4, 6, 255}, ENC[] = {1, 2, 4}, BAD[] = {3, 5, 255};
                if (rng.chance(1, 2)) h_val = 0; else if (rng.chance(1, 2)) h_val = VAL[rng.below(6)]; else if (!fixed) h_val = minval ? minval : 3;
                int vc = (int)rng.below(10); h_venc = vc < 4 ? 0 : vc < 8 ? ENC[rng.below(3)] : vc < 9 ? BAD[rng.below(3)] : h_venc;
                int hc = (int)rng.below(10); if (hc == 0) h_henc = 0; else if (hc == 1) h_henc = ENC[rng.below(3)]; else if (hc == 2) h_henc = BAD[rng.below(3)];
                pm = (int)rng.below(4);   // 0 payload as computed, 1 none, 2 valence table only, 3 handles only
                std::ostringstream d; d << "TOPO(" << ent << ") header valence=" << h_val << " valence_encoding=" << h_venc << " handle_encoding=" << h_henc << " over a payload laid out for valence=" << (fixed ? maxval : 0) << "/" << (fixed ? 0 : vw) << "/" << hw << (pm == 1 ? ", payload dropped" : pm == 2 ? ", valence table only" : pm == 3 ? ", handles only" : "");
                v.hostile_desc += d.str() + "; ";
            }
            w.u(sp.first, 8); w.u(sp.second, 4); w.u(ent, 1); w.u(h_val, 1); w.u(h_venc, 1); w.u(h_henc, 1); w.u(off, 8);
            if (!fixed && (pm == 0 || pm == 2)) for (size_t i = 0; i < sp.second; ++i) w.u(get(sp.first + i).size(), vw);
            if (pm == 0 || pm == 3) for (size_t i = 0; i < sp.second; ++i) for (int h : get(sp.first + i)) w.u((uint64_t)h - off, hw);
            f.raw(ref_chunk("TOPO", w.b, 1, rng, v.odd_padding)); junk();
        } };
    topo(1, c.ev.size(), [&](size_t i) { return std::vector<int>{c.ev[i][0], c.ev[i][1]}; });
    if (v.order == 1) { prop_chunks(1); prop_chunks(4); }
    topo(2, c.fhe.size(), [&](size_t i) { return c.fhe[i]; });
    if (v.order == 1) { prop_chunks(2); prop_chunks(5); }
    topo(3, c.chf.size(), [&](size_t i) { return c.chf[i]; });
    ensure_dir();
    if (v.order == 1) { prop_chunks(3); prop_chunks(6); } else for (int k = 0; k < 7; ++k) prop_chunks(k);
    f.raw(ref_chunk("EOF ", "", 1, rng, false));
    return f.b;
}

} // namespace vf
