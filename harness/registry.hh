#pragma once
#include "common.hh"
namespace vf {
using Factory = CaseFn (*)(const Args &);
std::map<std::string, Factory> &registry();
struct Reg { Reg(const char *name, Factory f) { registry()[name] = f; } };
}
#define VF_REGISTER(name, fn) static ::vf::Reg _reg_##fn(name, fn)
