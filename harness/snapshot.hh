// Full observable-state snapshot of a mesh (shape (c) of DESIGN.md): definitions, flags, counts,
// modes, raw incidence caches, every tracked property array (as text), registry counts.
#pragma once
#include "meshwrap.hh"
#include <OpenVolumeMesh/FileManager/Serializers.hh>

namespace vf {

struct FullSnap {
    Scan s;
    std::vector<std::vector<int>> cv, ce; std::vector<int> cf;
    bool V, E, F, deferred, fast;
    size_t nlog[4]; bool needs_gc; int genus;
    std::vector<std::string> positions;
    std::map<std::string, std::vector<std::string>> props;   // "kind/name/type" -> serialized values (shared + persistent ones reachable by iteration)
    size_t n_props[7], n_pers[7];

    template <class M> void take(const M &m) {
        s.build(m);
        cv.clear(); ce.clear(); cf.clear();
        for (auto &l : m.cache_v()) { cv.emplace_back(); for (auto h : l) cv.back().push_back(h.idx()); }
        for (auto &l : m.cache_e()) { ce.emplace_back(); for (auto h : l) ce.back().push_back(h.idx()); }
        for (auto c : m.cache_f()) cf.push_back(c.idx());
        V = m.has_vertex_bottom_up_incidences(); E = m.has_edge_bottom_up_incidences(); F = m.has_face_bottom_up_incidences();
        deferred = m.deferred_deletion_enabled(); fast = m.fast_deletion_enabled();
        nlog[0] = m.n_logical_vertices(); nlog[1] = m.n_logical_edges(); nlog[2] = m.n_logical_faces(); nlog[3] = m.n_logical_cells();
        needs_gc = m.needs_garbage_collection(); genus = m.genus();
        positions.clear();
        for (int v = 0; v < s.nv; ++v) { std::ostringstream o; const auto &p = m.vertex(VertexHandle(v)); char b[128]; snprintf(b, sizeof b, "%a,%a,%a", p[0], p[1], p[2]); positions.push_back(b); }
        props.clear();
        int k = 0;
        ovm::for_each_entity([&](auto tag) {
            using ET = decltype(tag);
            n_props[k] = m.template n_props<ET>(); n_pers[k] = m.template n_persistent_props<ET>();
            for (auto it = m.template persistent_props_begin<ET>(); it != m.template persistent_props_end<ET>(); ++it) {
                std::ostringstream o; (*it)->serialize(o);
                std::vector<std::string> vals; std::string line; std::istringstream is(o.str());
                while (std::getline(is, line)) vals.push_back(line);
                props[std::to_string(k) + "/" + (*it)->name() + "/" + (*it)->internal_type_name()] = vals;
            }
            ++k;
        });
    }
    // textual difference (empty = equal)
    std::string diff(const FullSnap &o, bool with_props = true) const {
        std::ostringstream d;
        if (s.nv != o.s.nv || s.ne != o.s.ne || s.nf != o.s.nf || s.nc != o.s.nc) d << "counts " << s.nv << "/" << s.ne << "/" << s.nf << "/" << s.nc << " vs " << o.s.nv << "/" << o.s.ne << "/" << o.s.nf << "/" << o.s.nc << "; ";
        if (s.vdel != o.s.vdel || s.edel != o.s.edel || s.fdel != o.s.fdel || s.cdel != o.s.cdel) d << "deleted flags; ";
        if (s.ev != o.s.ev) d << "edge definitions; ";
        if (s.fhe != o.s.fhe) d << "face definitions; ";
        if (s.chf != o.s.chf) d << "cell definitions; ";
        if (cv != o.cv) d << "vertex incidence cache; ";
        if (ce != o.ce) d << "edge incidence cache; ";
        if (cf != o.cf) d << "face incidence cache; ";
        if (V != o.V || E != o.E || F != o.F) d << "incidence settings; ";
        if (deferred != o.deferred || fast != o.fast) d << "deletion modes; ";
        for (int i = 0; i < 4; ++i) if (nlog[i] != o.nlog[i]) d << "n_logical[" << i << "]; ";
        if (needs_gc != o.needs_gc) d << "needs_garbage_collection; ";
        if (genus != o.genus) d << "genus; ";
        if (positions != o.positions) d << "positions; ";
        if (with_props) {
            if (props != o.props) d << "persistent property values; ";
            for (int i = 0; i < 7; ++i) { if (n_props[i] != o.n_props[i]) d << "n_props[" << i << "]; "; if (n_pers[i] != o.n_pers[i]) d << "n_persistent_props[" << i << "]; "; }
        }
        return d.str();
    }
};

} // namespace vf
