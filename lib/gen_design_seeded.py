#!/usr/bin/env python3
"""Rewrites the table of DESIGN.md section 10 from seeded/*/meta.json (between the BEGIN/END markers)."""
import json, glob, os, re
VERIF = os.path.dirname(os.path.dirname(os.path.abspath(__file__)))
rows = []
for f in sorted(glob.glob(os.path.join(VERIF, "seeded", "*", "meta.json"))):
    m = json.load(open(f))
    det = m.get("detected_by") or {}
    def short(v):
        v = str(v)
        if v.startswith("caught"): return "yes"
        if v.startswith("missed at first") or v.startswith("first run: NOT caught"): return "**missed at first**, yes after strengthening"
        if v.startswith("not caught") or v.startswith("MISSED"): return "no" + (" (" + v.split("(", 1)[1] if "(" in v else "")
        return v
    res = "; ".join("%s %s" % (k, short(v)) for k, v in det.items()) if det else "not run yet"
    chg = m["change"].replace("|", "/")
    rows.append("| %s | %s | %s |" % (m["id"], chg if len(chg) < 230 else chg[:227] + "...", res))
table = "| seeded change | what it does | checks run on it -> caught? |\n|---|---|---|\n" + "\n".join(rows) + "\n"
p = os.path.join(VERIF, "DESIGN.md")
s = open(p).read()
s2 = re.sub(r"<!-- SEEDED-TABLE-BEGIN -->.*<!-- SEEDED-TABLE-END -->", "<!-- SEEDED-TABLE-BEGIN -->\n" + table + "<!-- SEEDED-TABLE-END -->", s, flags=re.S)
open(p, "w").write(s2)
print(len(rows), "rows")
