#!/usr/bin/env python3
"""Regenerates /verif/MANIFEST.json from lib/props.py (single source of truth for the checks)."""
import json, os, sys
VERIF = os.path.dirname(os.path.dirname(os.path.abspath(__file__)))
sys.path.insert(0, os.path.join(VERIF, "lib"))
from props import PROPS, LEVEL_TEXT, NOT_APPLICABLE, HOOK_COMMITS

ALL = ["C%02d" % i for i in range(1, 21)]
checks = []
for pid in ALL:
    if pid not in PROPS:
        continue
    P = PROPS[pid]
    lt = LEVEL_TEXT[pid]
    checks.append({
        "property_id": pid,
        "quick_cmd": "bin/check %s --tier quick" % pid,
        "thorough_cmd": "bin/check %s --tier thorough" % pid,
        "evidence_file": "/verif/evidence/%s.json" % pid,
        "replay_cmd_template": "bin/check %s --replay {path}" % pid,
        "engine": "ovm-monitors",
        "level_claimed": {"category": P["level"], "text": lt["text"], "design_ref": "DESIGN.md section 5, " + pid},
        "level_note": lt["note"],
        "technique": P["technique"],
    })
na = [{"property_id": p, "reason": NOT_APPLICABLE.get(p, "check not built yet in this round; no claim is made")} for p in ALL if p not in PROPS]
man = {
    "version": 1,
    "setup_cmd": "bin/setup",
    "hooks": {
        "guard": "OVM_VERIF",
        "enable": "every flavor is compiled with -DOVM_VERIF (lib/ovmbuild.py); the design needs no source hook so far: caches and trackers are read through a derived class, faults are injected through std::streambuf and operator new",
        "baseline_off_cmd": "cmake --build /repo/_build && ctest --test-dir /repo/_build -j8 --timeout 900",
        "source_commits": HOOK_COMMITS,
        "add_only": True,
    },
    "engines": [{"name": "ovm-monitors", "path": "/verif/bin/check", "serves_properties": [c["property_id"] for c in checks],
                 "kind_free_text": "python driver + C++17 monitor binary (harness/*.cc) built per sanitizer flavor against /repo's working tree; runtime monitoring: brute-force oracles, id-labelled reference model, differential twins, snapshot equality, fault-injecting streams, under gcc ASan/UBSan/TSan with range-checked libstdc++ containers"}],
    "checks": checks,
    "notes": "All checks honour VERIF_SEED and VERIF_TIER. Exit 0 = held on everything explored, 1 = VIOLATION line, 2 = inconclusive (build failure, silent control, too little observed). Builds are cached under ${OVMVERIF_CACHE:-/var/tmp/ovmverif} (regenerable).",
    "not_applicable": na,
}
json.dump(man, open(os.path.join(VERIF, "MANIFEST.json"), "w"), indent=1)
print("MANIFEST.json: %d checks, %d not claimed" % (len(checks), len(na)))
