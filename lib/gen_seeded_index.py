#!/usr/bin/env python3
"""seeded/INDEX.md from the meta.json files."""
import json, glob, os
VERIF = os.path.dirname(os.path.dirname(os.path.abspath(__file__)))
rows = []
for f in sorted(glob.glob(os.path.join(VERIF, "seeded", "*", "meta.json"))):
    m = json.load(open(f))
    det = m.get("detected_by") or {}
    rows.append("| %s | %s | %s | %s | %s |" % (m["id"], m["property"], m["change"].replace("|", "/"), m["needs_to_manifest"].replace("|", "/"),
                "; ".join("%s: %s" % (k, v) for k, v in det.items()) if det else "not run yet"))
open(os.path.join(VERIF, "seeded", "INDEX.md"), "w").write(
    "# Seeded breakages and the checks that catch them\n\nEach change was produced by an independent sub-agent from the property text alone, confirmed "
    "(unit tests pass with it; the demonstration fails with it and passes without), applied to /repo with `bin/try_patch`, and reverted.\n\n"
    "| id | property | change | needs | result of the checks (quick tier) |\n|---|---|---|---|---|\n" + "\n".join(rows) + "\n")
print(len(rows), "entries")
