"""Build recipes: one cmake+ninja library build per sanitizer flavor, always from /repo's
current working tree, plus the harness objects compiled with the same flags (ccache)."""
import fcntl, hashlib, os, subprocess, sys, time, shutil
from concurrent.futures import ThreadPoolExecutor

REPO = os.environ.get("OVMVERIF_REPO", "/repo")
VERIF = os.path.dirname(os.path.dirname(os.path.abspath(__file__)))
CACHE = os.environ.get("OVMVERIF_CACHE", "/var/tmp/ovmverif")
GUARD = "OVM_VERIF"

SAN = "-fsanitize=address,undefined -fno-sanitize=vptr -fno-sanitize-recover=all"
COMMON = "-g1 -fno-omit-frame-pointer -D%s" % GUARD
FLAVORS = {
    # name: (compiler, flags, link flags)
    "asan-dbg": ("g++", "-O1 %s %s -D_GLIBCXX_ASSERTIONS -D_GLIBCXX_SANITIZE_VECTOR" % (COMMON, SAN), SAN),
    "asan-rel": ("g++", "-O1 %s %s -D_GLIBCXX_ASSERTIONS -D_GLIBCXX_SANITIZE_VECTOR -DNDEBUG" % (COMMON, SAN), SAN),
    "tsan":     ("g++", "-O1 %s -fsanitize=thread -DNDEBUG" % COMMON, "-fsanitize=thread"),
    "plain":    ("g++", "-O1 %s -DNDEBUG" % COMMON, ""),
    "fuzz":     ("clang++-14", "-O1 %s -fsanitize=fuzzer-no-link,address,undefined -fno-sanitize=vptr,object-size -fno-sanitize-recover=all -DNDEBUG" % COMMON,
                 "-fsanitize=fuzzer,address,undefined"),
}

def log(*a):
    print("[build]", *a, file=sys.stderr, flush=True)

def tree_hash():
    """sha256 over the contents of every file that the library build reads."""
    h = hashlib.sha256()
    roots = [os.path.join(REPO, "CMakeLists.txt"), os.path.join(REPO, "src")]
    files = []
    for r in roots:
        if os.path.isfile(r):
            files.append(r)
        else:
            for d, dn, fn in os.walk(r):
                dn.sort()
                if "Unittests" in d.split(os.sep):
                    continue
                for f in sorted(fn):
                    files.append(os.path.join(d, f))
    for f in files:
        h.update(os.path.relpath(f, REPO).encode())
        try:
            with open(f, "rb") as fh:
                h.update(fh.read())
        except OSError:
            pass
    return h.hexdigest()[:16]

def _run(cmd, cwd=None, env=None, logfile=None):
    p = subprocess.run(cmd, cwd=cwd, env=env, stdout=subprocess.PIPE, stderr=subprocess.STDOUT, text=True)
    if logfile:
        with open(logfile, "a") as fh:
            fh.write("$ %s\n%s\n" % (" ".join(cmd), p.stdout))
    return p.returncode, p.stdout

def flavor_dir(flavor):
    return os.path.join(CACHE, flavor)

def build_lib(flavor):
    """(Re)build libOpenVolumeMesh.a for this flavor from /repo. Returns (libpath, incdirs)."""
    cxx, flags, _ = FLAVORS[flavor]
    d = flavor_dir(flavor)
    libdir = os.path.join(d, "lib")
    os.makedirs(libdir, exist_ok=True)
    logfile = os.path.join(d, "build.log")
    env = dict(os.environ)
    env["CCACHE_DIR"] = os.path.join(CACHE, "ccache")
    env["CCACHE_MAXSIZE"] = "4G"
    t0 = time.time()
    cfg = ["cmake", "-G", "Ninja", "-S", REPO, "-B", libdir,
           "-DCMAKE_BUILD_TYPE=", "-DCMAKE_CXX_COMPILER=" + cxx,
           "-DCMAKE_CXX_COMPILER_LAUNCHER=ccache",
           "-DCMAKE_CXX_FLAGS=" + flags,
           "-DOVM_ENABLE_UNITTESTS=OFF", "-DOVM_ENABLE_APPLICATIONS=OFF",
           "-DOVM_ENABLE_EXAMPLES=OFF", "-DOVM_BUILD_DOCUMENTATION=OFF",
           "-DBUILD_SHARED_LIBS=OFF"]
    rc, out = _run(cfg, env=env, logfile=logfile)
    if rc != 0 and "does not match the source" in out:
        # the cache directory was last used with another checkout of the repository: start this flavor's library build over
        import shutil
        shutil.rmtree(libdir, ignore_errors=True); os.makedirs(libdir, exist_ok=True)
        rc, out = _run(cfg, env=env, logfile=logfile)
    if rc != 0:
        raise RuntimeError("cmake configure failed for %s:\n%s" % (flavor, out[-3000:]))
    rc, out = _run(["ninja", "-C", libdir, "OpenVolumeMesh"], env=env, logfile=logfile)
    if rc != 0:
        raise RuntimeError("library build failed for %s:\n%s" % (flavor, out[-6000:]))
    lib = os.path.join(libdir, "Build", "lib", "libOpenVolumeMesh.a")
    if not os.path.exists(lib):
        # fall back: search
        for dd, _, fn in os.walk(libdir):
            for f in fn:
                if f == "libOpenVolumeMesh.a":
                    lib = os.path.join(dd, f)
    log("%s: library up to date (%.1fs)" % (flavor, time.time() - t0))
    return lib, [os.path.join(REPO, "src"), os.path.join(libdir, "src")]

def build_harness(flavor, sources, exe_name, extra_flags=""):
    """Compile harness sources with the flavor's flags (through ccache: content-addressed,
    so repo header edits are honoured without dependency tracking) and link against the lib."""
    cxx, flags, ldflags = FLAVORS[flavor]
    d = flavor_dir(flavor)
    objdir = os.path.join(d, "obj")
    os.makedirs(objdir, exist_ok=True)
    lockf = open(os.path.join(d, ".lock"), "w")
    fcntl.flock(lockf, fcntl.LOCK_EX)
    try:
        lib, incs = build_lib(flavor)
        env = dict(os.environ)
        env["CCACHE_DIR"] = os.path.join(CACHE, "ccache")
        env["CCACHE_BASEDIR"] = VERIF
        hdir = os.path.join(VERIF, "harness")
        inc = " ".join("-I" + i for i in incs + [hdir])
        objs = []
        jobs = []
        for s in sources:
            o = os.path.join(objdir, os.path.basename(s).replace(".cc", ".o"))
            objs.append(o)
            cmd = ["ccache", cxx, "-std=c++17"] + flags.split() + extra_flags.split() + inc.split() + \
                  ["-DOVMVERIF_FLAVOR=\"%s\"" % flavor, "-c", os.path.join(hdir, s), "-o", o]
            jobs.append(cmd)
        t0 = time.time()
        with ThreadPoolExecutor(max_workers=16) as ex:
            res = list(ex.map(lambda c: _run(c, env=env, logfile=os.path.join(d, "build.log")), jobs))
        for (rc, out), cmd in zip(res, jobs):
            if rc != 0:
                raise RuntimeError("harness compile failed (%s):\n%s\n%s" % (flavor, " ".join(cmd), out[-8000:]))
        exe = os.path.join(d, exe_name)
        tmp = exe + ".tmp.%d" % os.getpid()
        cmd = [cxx] + objs + [lib] + ldflags.split() + ["-rdynamic", "-ldl", "-lpthread", "-o", tmp]
        rc, out = _run(cmd, env=env, logfile=os.path.join(d, "build.log"))
        if rc != 0:
            raise RuntimeError("harness link failed (%s):\n%s" % (flavor, out[-6000:]))
        os.replace(tmp, exe)
        log("%s: harness %s built (%.1fs)" % (flavor, exe_name, time.time() - t0))
        return exe
    finally:
        fcntl.flock(lockf, fcntl.LOCK_UN)
        lockf.close()

if __name__ == "__main__":
    # setup: prebuild the libraries of the flavors named on the command line (parallel)
    fl = sys.argv[1:] or ["asan-dbg", "asan-rel", "tsan"]
    def one(f):
        d = flavor_dir(f); os.makedirs(d, exist_ok=True)
        lockf = open(os.path.join(d, ".lock"), "w"); fcntl.flock(lockf, fcntl.LOCK_EX)
        try:
            return build_lib(f)
        finally:
            fcntl.flock(lockf, fcntl.LOCK_UN)
    with ThreadPoolExecutor(max_workers=len(fl)) as ex:
        for r in ex.map(one, fl):
            print(r[0])
