"""Per-property configuration of the checks (parts, bounds, non-triviality rules, evidence text)."""

HARNESS_SOURCES = ["main.cc", "engine_poly.cc", "engine_tet.cc", "engine_hex.cc", "mon_hist.cc", "mon_c12.cc", "mon_iter.cc", "mon_query.cc", "mon_c13.cc", "mon_c14.cc", "mon_c15.cc", "mon_c16.cc", "mon_c19.cc", "mon_c20.cc", "mon_c06.cc", "mon_io2.cc"]

def cnt(js, k):
    return js.get("cnt", {}).get(k, 0)

COMMON_ASSUME = [
    "the executions produced by the generators are representative; nothing is claimed about histories, sizes or inputs that were not generated",
    "the brute-force oracles read the stored definitions through edge()/face()/cell()/is_deleted()/n_*() and trust those accessors",
    "gcc 12 ASan/UBSan (+ _GLIBCXX_ASSERTIONS, _GLIBCXX_SANITIZE_VECTOR) report the memory errors they are documented to report; far out-of-bounds or intra-object errors can be missed",
]

def hist_rule(extra=None):
    def fn(js):
        c = js.get("cnt", {})
        muts = sum(v for k, v in c.items() if k.startswith("op.delete") or k.startswith("op.swap") or k.startswith("op.set") or k == "op.collect_garbage")
        ok = muts >= 1 and c.get("checkpoints.with-cells", 0) >= 1
        return ok and (extra(js) if extra else True)
    return fn

PROPS = {
 "C01": {
  "level": "exploration",
  "technique": "brute-force incidence oracle after every step of generated histories, under ASan+UBSan+range-checked vectors",
  "parts": [
    {"name": "dbg", "flavor": "asan-dbg", "monitor": "C01", "cases": {"quick": 1500, "thorough": 30000}},
    {"name": "rel", "flavor": "asan-rel", "monitor": "C01", "cases": {"quick": 400, "thorough": 6000}},
  ],
  "nontrivial": {"fn": hist_rule(lambda js: cnt(js, "queries") >= 50),
                 "text": "case = generated mesh (soup/tet/hex) + random history of add/set/delete/swap/collect_garbage/clear/enable_* calls; after EVERY operation all upward queries of all live entities are compared with a naive scan of edge()/face()/cell(). non-trivial = >=1 deletion/swap/set_*/collect_garbage executed, >=1 checkpoint with a live cell, >=50 incidence answers compared; distinct = different digest of (operation-kind sequence, entity counts per step)"},
  "floor": {"quick": 300, "thorough": 5000},
  "min_counts": {"queries": 100000},
  "assumptions": COMMON_ASSUME + ["meshes in which a halfface belongs to two live cells are excluded, as in the property"],
 },
 "C02": {
  "level": "exploration",
  "technique": "id-labelled reference model (stable ids carried as tag properties) compared with the mesh after every step, all four deletion modes",
  "parts": [
    {"name": "dbg", "flavor": "asan-dbg", "monitor": "C02", "cases": {"quick": 6000, "thorough": 100000}},
    {"name": "rel", "flavor": "asan-rel", "monitor": "C02", "cases": {"quick": 800, "thorough": 12000}},
  ],
  "nontrivial": {"fn": hist_rule(lambda js: sum(v for k, v in js.get("cnt", {}).items() if k.startswith("op.delete")) >= 2),
                 "text": "case = generated base + deletion-heavy history, each generated base replayed in the four (deferred x fast) modes; the model marks the upward closure dead in id space, the mesh (expressed in ids through tag properties) must equal it after every step, incl. counters, flags, genus. non-trivial = >=2 deletions, >=1 checkpoint with a live cell; distinct by operation digest"},
  "floor": {"quick": 1000, "thorough": 15000},
  "min_counts": {"predicates": 100000},
  "assumptions": COMMON_ASSUME + ["entity identity is carried by monitor-owned int properties; if the property system itself misplaces values C02 reports together with C03"],
 },
 "C03": {
  "level": "exploration",
  "technique": "shadow values per (property, stable id[, side]) compared after every step; sizes and defaults of fresh slots; 7 value types x 7 entity kinds",
  "parts": [
    {"name": "dbg", "flavor": "asan-dbg", "monitor": "C03", "cases": {"quick": 1500, "thorough": 25000}},
    {"name": "rel", "flavor": "asan-rel", "monitor": "C03", "cases": {"quick": 300, "thorough": 5000}},
  ],
  "nontrivial": {"fn": hist_rule(lambda js: cnt(js, "prop.value-checks") >= 100 and cnt(js, "prop.writes") >= 3),
                 "text": "case = history as C02 with 3-10 live properties of random value type / entity kind / visibility, written between steps, created and dropped mid-history. non-trivial = >=1 deletion/swap/gc, >=100 property values compared, >=3 writes; distinct by operation digest"},
  "floor": {"quick": 300, "thorough": 5000},
  "min_counts": {"prop.value-checks": 200000, "prop.default-checks": 2000},
  "assumptions": COMMON_ASSUME,
 },
 "C04": {
  "level": "exploration",
  "technique": "id-labelled reference model across collect_garbage / leaving deferred mode / StatusAttrib::garbage_collection (marks, manifoldness pass, tracked handles); shadow property values; both deferred and immediate runs compared with the same model",
  "parts": [
    {"name": "dbg", "flavor": "asan-dbg", "monitor": "C04", "cases": {"quick": 1500, "thorough": 20000}},
    {"name": "rel", "flavor": "asan-rel", "monitor": "C04", "cases": {"quick": 300, "thorough": 4000}},
  ],
  "nontrivial": {"fn": hist_rule(lambda js: (cnt(js, "op.status_gc") + cnt(js, "op.collect_garbage")) >= 2 and cnt(js, "checkpoints.with-pending") >= 1),
                 "text": "case = generated mesh with live properties, mostly in deferred mode, history of deletions, kernel collect_garbage, enable_deferred_deletion(false) and StatusAttrib::garbage_collection (random marks on all four kinds, manifoldness flag, tracked handle lists of all four kinds incl. empty/duplicate/invalid/deleted-slot handles). The model applies closure + (optionally) the manifold cascade in id space; mesh, property values and every tracked handle are compared afterwards. non-trivial = >=2 collections, pending deletions present at some checkpoint, a live cell; distinct by operation digest"},
  "floor": {"quick": 300, "thorough": 4000},
  "min_counts": {"tracked.survivors": 2000, "tracked.removed": 500, "op.status_gc.manifold": 200, "prop.value-checks": 100000},
  "assumptions": COMMON_ASSUME + ["tracked handles are only passed within the documented domain (invalid or in range)"],
 },
 "C05": {
  "level": "exploration",
  "technique": "protocol oracle over all six entity iterators and all circulator kinds (content vs brute-force scan; laps, begin/end, valid(), range-for, backward stepping, arithmetic) on states reached by generated histories",
  "parts": [
    {"name": "dbg", "flavor": "asan-dbg", "monitor": "C05", "cases": {"quick": 600, "thorough": 12000}},
  ],
  "nontrivial": {"fn": lambda js: cnt(js, "circulators") >= 100 and cnt(js, "circ.back-steps") >= 200,
                 "text": "case = history as C01 (mostly deferred mode so that deleted entities sit at the front/middle/end of the arrays; every 50th case an (almost) empty mesh); at several states ALL live centres of ALL 26 circulator kinds (+tet/hex ones) and the six entity iterators are checked: one lap equals the brute-force incident (multi)set or the defined sequence, laps 1..3 repeat, range end == begin advanced, k forward + j backward steps land on the recorded position (exhaustive for <=8 positions, sampled above), ++/--/+/-/+=/-= agree, empty centres are immediately invalid. non-trivial = >=100 circulators and >=200 backward steps checked in the case; distinct by operation digest"},
  "floor": {"quick": 200, "thorough": 4000},
  "min_counts": {"circulators": 200000, "circulators.empty-centre": 1000, "entity-iterators": 5000, "circ.back-steps": 1000000},
  "assumptions": COMMON_ASSUME + ["valid() is not judged after an iterator left the valid range and came back (handle and lap are)", "faces of valence 0 and centres outside the mesh are outside the domain"],
 },
 "C06": {
  "level": "exploration",
  "technique": "canonical bit-exact mesh form compared across write/read; independent OVMB decoder and re-encoder written from the ksy (spans, widths, offsets, skippable chunks, orders); ASCII double round trip; pending-deletion probes",
  "parts": [
    {"name": "rel", "flavor": "asan-rel", "monitor": "C06", "cases": {"quick": 400, "thorough": 8000}},
  ],
  "nontrivial": {"fn": lambda js: cnt(js, "ovmb.reads") + cnt(js, "ascii.reads") >= 2 or cnt(js, "pending.files") >= 1 or cnt(js, "ovmb.boundary-files") + cnt(js, "ovmb.valence-files") >= 1,
                 "text": "case = generated poly/tet/hex mesh (engine history, garbage collected; empty meshes every 23rd case) with 2-9 persistent properties over 7 entity kinds x 31 value types (all OVMB codecs / the ASCII typeName list), random values incl. NaN/inf/-0/denormals for OVMB. OVMB: writer bytes are decoded by an independent ksy-based decoder and must equal the mesh bit for bit (values, defaults, header type); library round trip into every compatible mesh type x topology check on (meshes that pass it)/off x incidences on/off (+C01 oracle); incompatible types refused; 6 (thorough 12) alternative permitted encodings from an independent encoder (1-4 spans per array, u8->u16->u32 widening, float positions where exact, fixed/variable valence, non-zero handle_offset, unknown non-mandatory chunks, interleaved chunk order, late DIRP, odd padding) must read to the same mesh. ASCII: write/read/write; printable-exact values compared exactly, arbitrary doubles to 1e-5, second round trip byte-identical, isHexahedralMesh/isTetrahedralMesh and IO::read_file on real files. Every 10th case: mesh with pending deletions must be refused or written as its logical content; boundary cases at 255/256 (thorough also 65535/65536) entities, and at face / cell valences 254..257, 300, 511, 512, 1000 (uniform and mixed). non-trivial = >=2 reads, or a pending / boundary file; distinct by operation digest"},
  "floor": {"quick": 150, "thorough": 3000},
  "min_counts": {"ovmb.variants": 500, "ovmb.reads": 500, "ascii.reads": 300, "pending.files": 10, "ovmb.valence-files": 4},
  "assumptions": COMMON_ASSUME + ["PROP payload encodings are not part of the ksy: the reference decoder assumes little-endian fixed-size elements, LSB-first bit packing for bool and u32-length-prefixed strings", "ASCII values of char type are restricted to printable non-space characters; strings to printable characters"],
 },
 "C07": {
  "level": "exploration",
  "technique": "structured mutation of valid OVMB / OVM-ASCII files (numeric fields := boundary values, payload vs declared length, chunk/line drop/duplicate/splice, byte edits) and hostile re-encodings by an independent encoder (inconsistent spans with matching payloads, sub-headers contradicting the payload) read under ASan+UBSan+range-checked vectors with a capped operator new; validity walk on every success; driver watchdog for termination",
  "parts": [
    {"name": "rel", "flavor": "asan-rel", "monitor": "C07", "cases": {"quick": 400, "thorough": 6000}, "case_timeout": 180},
  ],
  "nontrivial": {"fn": lambda js: cnt(js, "c07.inputs") >= 50 and (cnt(js, "c07.ovmb.rejected") + cnt(js, "c07.ascii.rejected")) >= 5,
                 "text": "case = one generated valid file (OVMB and ASCII alternate; poly/tet/hex; persistent properties of random codecs) and 100 inputs derived from it: the file itself, empty input, random bytes, two files concatenated, then 1-3 stacked mutations each - OVMB: every numeric field of file header / chunk header / VERT, TOPO, PROP sub-headers / DIRP bytes / payload words replaced by one of 22 boundary values (0,1,..,255,256,65535,65536,2^31-1,2^31,2^32-1,2^32,2^63-1,2^63,2^64-1) or a small number; payload shortened/extended against its declared length; length fields adjusted; chunks dropped, duplicated, spliced from another file; bit flips, inserts, deletes, truncation. Every second OVMB base file is a re-encoding by the independent encoder (arrays split over 1-4 chunks, wider integers, handle offsets, unknown chunks, other chunk orders); a quarter of the OVMB inputs are hostile re-encodings with (mostly exactly one) structural inconsistency whose payload matches its declared count: a span that overlaps / overshoots / leaves a gap / is repeated / out of order, or a VERT/TOPO sub-header whose valence, valence_encoding, handle_encoding (variable vs fixed, none / valid / invalid) contradicts the payload layout (as laid out, dropped, valence table only, handles only). ASCII: lines/tokens dropped, repeated, replaced by non-numeric text, negative numbers, huge counts, section names, property headers of other kinds/types. Each input is read with random topology_check / incidence options into a random mesh type. Any sanitizer report, libstdc++ assertion, abort, non-standard exception or watchdog timeout is a violation; on success every stored handle must designate an existing entity and every tracked property must have one element per entity (+cache shape when incidences were requested). non-trivial = >=50 inputs with >=5 rejections; distinct by operation digest"},
  "floor": {"quick": 100, "thorough": 3000},
  "min_counts": {"c07.inputs.ovmb": 8000, "c07.inputs.ascii": 8000, "validity-walks": 2000, "c07.ovmb.rejected": 3000, "c07.ascii.rejected": 1000, "c07.inputs.hostile-spans": 1500},
  "assumptions": COMMON_ASSUME + ["allocation requests above 256 MiB throw std::bad_alloc (harness operator new), which the statement allows as a way of reporting failure", "counts between 70 000 and 2^31 in ASCII files are not generated (they only make the run long)"],
 },
 "C08": {
  "level": "exploration",
  "technique": "algebraic identities of the handle conversions evaluated for index ranges under UBSan (thorough: every index in [0,2^30)); mirror identities of opposite half-entities on every edge/face after every step of histories",
  "parts": [
    {"name": "conv", "flavor": "asan-dbg", "monitor": "C08", "sub": "conv", "cases": {"quick": 64, "thorough": 256}},
    {"name": "mesh", "flavor": "asan-dbg", "monitor": "C08", "sub": "mesh", "cases": {"quick": 600, "thorough": 10000}},
  ],
  "exhaustive": {"quick": False, "thorough": False},
  "nontrivial": {"fn": lambda js: cnt(js, "indices") >= 1000 or (cnt(js, "mirror.faces") >= 50 and cnt(js, "mirror.edges") >= 50),
                 "text": "part conv: each case evaluates ~25 conversion identities (static and member forms of halfedge_handle/halfface_handle/edge_handle/face_handle/opposite/subidx) on a range of indices; quick = blocks covering [0,2^20), a strided sweep to 2^30 and +-2048 around every power of two; thorough = EVERY index in [0,2^30) in 256 chunks of 2^22 (that sub-space is enumerated completely). part mesh: histories as C01; after every step every live edge/face is checked for the mirror identities (opposite halfedge swaps ends, opposite halfface = reversed opposites, closed loops, the two sides' circulators run the same cycle in opposite directions, next/prev inverse); every third step a connected halfedge path (open at the wrap-around junction two times out of three) is submitted to add_face WITH topology check: an accepted face must be a closed loop. non-trivial = >=1000 indices or >=50 faces and edges checked; distinct by range / operation digest"},
  "floor": {"quick": 200, "thorough": 3000},
  "min_counts": {"indices": 4000000, "mirror.faces": 50000, "mirror.valence.1": 20, "mirror.valence.2": 20, "mirror.valence.7": 20, "mirror.checked-probes.open": 2000, "mirror.checked-probes.rejected": 2000},
  "assumptions": COMMON_ASSUME + ["UBSan reports signed overflow/shift errors in the conversion arithmetic; indices above 2^30 are outside the quantifier"],
 },
 "C09": {
  "level": "exploration",
  "technique": "brute-force fan classifier and successor relation around every edge compared with halfedge_halffaces order; in-cell adjacency vs unique-candidate scan; after every step of histories",
  "parts": [
    {"name": "dbg", "flavor": "asan-dbg", "monitor": "C09", "cases": {"quick": 1000, "thorough": 20000}},
  ],
  "nontrivial": {"fn": lambda js: cnt(js, "fan.valence>=3") >= 3 and cnt(js, "adj.queries") >= 50 and sum(v for k, v in js.get("cnt", {}).items() if k.startswith("op.delete") or k.startswith("op.swap") or k == "op.collect_garbage" or k == "op.toggle_bu") >= 1,
                 "text": "case = mesh with rings/chains of tets attached around edges in random order, hex blocks, soups; history of add_cell/add_face/delete_*/collect_garbage/swap_*/bottom-up toggling (no set_face/set_cell). After every step every edge is classified by brute force; for single-fan edges the reported halfface order must follow the in-cell successor relation, boundary halfface last, opposite halfedge mirrored; adjacent_halfface_in_cell must equal the unique candidate for both halfedge orientations and be involutive. non-trivial = >=3 checks of fans with valence>=3, >=50 adjacency queries, >=1 delete/swap/gc/toggle; distinct by operation digest"},
  "floor": {"quick": 200, "thorough": 4000},
  "min_counts": {"fan.interior": 200, "fan.boundary": 2000, "adj.queries": 100000},
  "assumptions": COMMON_ASSUME + ["edges whose faces/cells do not form a single fan, and cells with 0 or >=2 adjacency candidates, are not judged (unspecified by the property)"],
 },
 "C10": {
  "level": "exploration",
  "technique": "three-valued brute-force oracle for every lookup function over all vertex pairs / triples / face tuples (rotated, reversed, damaged) / halfedge pairs / (cell, tuple) combinations of reached states",
  "parts": [
    {"name": "dbg", "flavor": "asan-dbg", "monitor": "C10", "cases": {"quick": 500, "thorough": 8000}},
  ],
  "nontrivial": {"fn": lambda js: cnt(js, "lookup.find_halfedge.hit") >= 10 and cnt(js, "lookup.find_halfface(v).hit") >= 5 and cnt(js, "lookup.find_halfface(he)") >= 50,
                 "text": "case = history as C01 with all incidences on (every third case without parallel edges so that every lookup is decidable); at several states: find_halfedge on ALL ordered vertex pairs, find_halfface/find_halfface_extensive on every face tuple in every rotation + damaged variants + all ordered triples (<=10 vertices) or 300 sampled, in-cell lookups over all live cells, find_halfface(halfedges) over all halfedge pairs (<=40 halfedges) or 1500 sampled, get_halfface_vertices x3, is_incident over all face/edge pairs, n_vertices_in_cell. must-find / must-be-invalid / either classification by brute force; any returned entity must be live and match. non-trivial = >=10 find_halfedge hits, >=5 find_halfface hits, >=50 halfedge-pair probes"},
  "floor": {"quick": 200, "thorough": 3000},
  "min_counts": {"lookup.find_halfedge": 100000, "lookup.find_halfface(v)": 100000, "lookup.find_halfface_in_cell.hit": 2000, "lookup.find_halfedge_in_cell.hit": 2000, "lookup.find_halfface_extensive.hit": 2000},
  "assumptions": COMMON_ASSUME + ["arguments outside the documented domain (fewer than three vertices, deleted handles, start vertex not on the halfface) are not generated", "cells containing parallel edges are skipped for the in-cell lookups"],
 },
 "C11": {
  "level": "exploration",
  "technique": "acceptance predicate computed by brute force (closed loop / closed surface matching) for crafted argument lists; full before/after snapshot equality for rejected and deduplicated handle-based calls; accepted calls: exactly one new entity, rest unchanged, C01 oracle",
  "parts": [
    {"name": "dbg", "flavor": "asan-dbg", "monitor": "C11", "cases": {"quick": 1000, "thorough": 15000}},
    {"name": "rel", "flavor": "asan-rel", "monitor": "C11", "cases": {"quick": 300, "thorough": 4000}},
  ],
  "nontrivial": {"fn": lambda js: cnt(js, "rejected-calls") >= 5 and cnt(js, "accepted-calls") >= 5,
                 "text": "case = reached state (poly/tet/hex, deferred-deleted look-alikes present, with/without vertex incidences, live properties) followed by 40 crafted calls: add_edge(no duplicates) on random pairs; add_face(check) with empty / single / open / closed / rotated / repeated / reversed lists; add_cell(check) with empty lists, fresh closed surfaces, missing / doubled / flipped / extra faces, permutations, two disjoint closed surfaces, faces of existing cells. Rejected or deduplicated calls must leave the complete snapshot (definitions, flags, counts, modes, raw caches, tags, properties, positions) unchanged; accepted ones append exactly one entity with the given definition. non-trivial = >=5 rejected and >=5 accepted calls; distinct by operation digest"},
  "floor": {"quick": 300, "thorough": 4000},
  "min_counts": {"rejected-calls": 10000, "accepted-calls": 10000},
  "assumptions": COMMON_ASSUME + ["the vertex-based convenience overloads are not held to the no-op rule (as in the statement)", "lists naming halffaces that already belong to a live cell are not submitted (no halfface in two live cells)"],
 },
 "C12": {
  "level": "exploration",
  "technique": "differential twins: same API call stream on an all-incidences mesh and on a mesh with a random, mid-history toggled incidence subset; handle-for-handle comparison after every step; circulators of disabled kinds must be invalid",
  "parts": [
    {"name": "dbg", "flavor": "asan-dbg", "monitor": "C12", "cases": {"quick": 1500, "thorough": 25000}},
    {"name": "rel", "flavor": "asan-rel", "monitor": "C12", "cases": {"quick": 400, "thorough": 6000}},
  ],
  "nontrivial": {"fn": hist_rule(lambda js: cnt(js, "twin.comparisons") >= 20 and cnt(js, "disabled-circulators") >= 5),
                 "text": "case = history (construction, deletion in the case's mode, garbage collection, swaps, mode switches, incidence toggles) executed on two meshes through the identical API call stream: A keeps all bottom-up incidences, B starts with a random subset (the shipped default deferred+fast/no incidences every 4th case) and toggles kinds mid-history. After every step: definitions, flags, counts, tag properties (6 kinds) and positions agree handle for handle; caches of kinds enabled in B equal A's; C01 and C09 oracles on B; every circulator needing a disabled kind must be invalid at construction. non-trivial = >=1 deletion/swap/gc, a live cell, >=20 twin comparisons, >=5 disabled-circulator probes"},
  "floor": {"quick": 300, "thorough": 5000},
  "min_counts": {"twin.comparisons": 30000, "disabled-circulators": 20000},
  "assumptions": COMMON_ASSUME + ["definitions/properties in deleted-but-uncollected slots are not compared"],
 },
 "C13": {
  "level": "exploration",
  "technique": "snapshot equality between source and copy restricted to what a copy promises; then mutation histories on one side with full-snapshot equality of the other side after every step (both directions); held handles probed under ASan",
  "parts": [
    {"name": "dbg", "flavor": "asan-dbg", "monitor": "C13", "cases": {"quick": 800, "thorough": 12000}},
    {"name": "rel", "flavor": "asan-rel", "monitor": "C13", "cases": {"quick": 200, "thorough": 3000}},
  ],
  "nontrivial": {"fn": lambda js: cnt(js, "copies") >= 1 and cnt(js, "independence-checks") >= 5,
                 "text": "case = source mesh reached by a history (pending deletions most of the time, mix of shared/private/persistent properties of 7 value types, live handles), then one of: copy construction, assignment over a used mesh (holding handles, colliding property names every second case), assignment over an empty mesh, self-assignment, chain c=b=a, mixed-kernel round trip tet/hex -> poly -> tet/hex. The copy must equal the source in entities, definitions, positions, deletion state, modes, incidence settings and persistent properties; non-persistent ones must not be findable; then both sides are mutated in turn (topology, positions via tags, property writes) while the complete snapshot of the other side - including every held property array - must not change. Handles held across assignment: size == new counts, attached, every element readable, not findable by name (or a different storage). non-trivial = >=1 copy and >=5 independence comparisons; distinct by operation digest"},
  "floor": {"quick": 200, "thorough": 3000},
  "min_counts": {"copies": 500, "independence-checks": 10000, "orphan-handles": 500},
  "assumptions": COMMON_ASSUME + ["identity tags are persistent properties in this monitor so that the copy can be driven further by the engine"],
 },
 "C14": {
  "level": "exploration",
  "technique": "executable reference model of the property registry driven by the same random call sequence; storage identity observed by write-through; exceptions and flags compared; ASan+LSan for lifetime",
  "parts": [
    {"name": "dbg", "flavor": "asan-dbg", "monitor": "C14", "cases": {"quick": 3000, "thorough": 60000}},
    {"name": "rel", "flavor": "asan-rel", "monitor": "C14", "cases": {"quick": 600, "thorough": 10000}},
  ],
  "nontrivial": {"fn": lambda js: cnt(js, "request.hit") + cnt(js, "create.refused") >= 1 and cnt(js, "transitions.done") >= 1 and cnt(js, "observations") >= 30,
                 "text": "case = random program of 60 (thorough 120) calls over up to 5 meshes: request/create_shared/create_persistent/create_private/get_property/property_exists with 4 value types x 7 entity kinds x colliding names {a,b,c,''}; set_shared/set_persistent/set_name; handle copy/move/drop; clear_*_props/clear_all_props/clear; mesh copy/assign/destroy while handles survive; random teardown order. After EVERY call: n_props, n_persistent_props and persistent iteration vs the model, every handle's shared/persistent/name/attached/size, storage identity of random handle pairs by write-through, exceptions vs the model. non-trivial = >=1 name collision (request hit or refused create), >=1 transition, >=30 observations; distinct by operation digest"},
  "floor": {"quick": 800, "thorough": 15000},
  "min_counts": {"identity.same": 3000, "identity.different": 20000, "transitions.thrown": 1000, "mesh.destroy": 1000, "mesh.assign": 300},
  "assumptions": COMMON_ASSUME + ["set_name is exercised inside the domain that keeps shared names unique (see DESIGN.md: renaming a shared property onto a taken name is not checked by the library and is recorded separately)", "LeakSanitizer reports leaks at process exit"],
 },
 "C15": {
  "level": "exploration",
  "technique": "shape-invariant scan after every step; brute-force order contracts for all cells/halffaces/halfedges; all TetTopology constructors and all 12+24 labels checked against the scan; collapse_edge against an id-space model with orientation parity, link condition decided by brute force",
  "parts": [
    {"name": "dbg", "flavor": "asan-dbg", "monitor": "C15", "cases": {"quick": 800, "thorough": 8000}},
  ],
  "nontrivial": {"fn": lambda js: cnt(js, "tet.cells-checked") >= 10 and cnt(js, "tet.labelings") >= 20,
                 "text": "case = tet complex (fans around edges, tets glued on faces/edges/vertices, boundary) in one of the four deletion modes; history mixing collapse_edge on brute-force-collapsible halfedges (link condition in the complex of all live simplices; clean complexes only), add_cell by 4 vertices (both overloads, topology check on/off), engine mutations (delete/swap/gc/mode switches). After every step: faces have 3 edges, cells 4 faces/4 distinct vertices; periodically: get_cell_vertices (4 forms), halfface_opposite_vertex/vertex_opposite_halfface inverse, tv_iter, every TetTopology constructor with all 12 (halfface,start) choices x 2 + per-vertex + default, 12 halfedge and 24 halfface labels, get_label inverses, TriangleTopology. collapse: expected cells = former cells not containing both ends with a->b, same orientation parity; returned handle must carry b's id; vertex and cell property values follow. non-trivial = >=10 cells and >=20 labelings checked; distinct by operation digest"},
  "floor": {"quick": 200, "thorough": 3000},
  "min_counts": {"op.collapse_edge": 500, "collapse.cells-rewritten": 300, "collapse.cells-dropped": 500, "tet.labelings": 20000, "op.add_cell(vertices)": 500},
  "assumptions": COMMON_ASSUME + ["collapse_edge is only applied where the link condition holds and the mesh is a clean simplicial complex (no parallel edges / duplicate faces)", "edge/face identities and their property values after a collapse are unspecified and re-established from the mesh"],
 },
 "C16": {
  "level": "exploration",
  "technique": "brute-force layout oracle on vertex sets for every live hex after every few steps; orientation helpers and orthogonal_orientation vs cross product; hex_vertices pattern; sheet circulators vs neighbour scan; permutation probes of add_cell(check) with snapshot equality on rejection",
  "parts": [
    {"name": "dbg", "flavor": "asan-dbg", "monitor": "C16", "cases": {"quick": 500, "thorough": 6000}},
  ],
  "nontrivial": {"fn": lambda js: cnt(js, "hex.cells-checked") >= 10 and cnt(js, "hex.permutations") >= 30,
                 "text": "case = blocks of hexes (1..3 x 1..2 x 1..2, random cells removed -> L/U shapes, several blocks glued on faces) in one of the four deletion modes; history of deletions, garbage collection, swaps, add_cell from eight vertices (faces reused through the lookups) and from halffaces. For every live cell: halffaces 2k/2k+1 vertex-disjoint, neighbours around the first halfface = positions 2,4,3,5 cyclically, orientation()/opposite_halfface_handle_in_cell/x,y,z front/back/get_oriented_halfface agree, hex_vertices distinct + first four against the first halfface's order + last four on the opposite halfface + pattern pairs 0-4,1-7,2-6,3-5 and both rings joined by edges, cell_sheet_cells and halfface_sheet_halffaces vs the neighbour scan, adjacent_halfface_on_sheet/on_surface. Finally add_cell(check=true) with 60 (thorough: all 720 every 8th case) permutations of a valid halfface list: accepted => correct layout, rejected => complete snapshot unchanged. non-trivial = >=10 cells checked and >=30 permutations; distinct by operation digest"},
  "floor": {"quick": 150, "thorough": 2000},
  "min_counts": {"hex.cells-checked": 20000, "hex.csc.nonempty": 5000, "hex.hfshf.nonempty": 5000, "hex.permutations.accepted": 2000, "hex.on_sheet.interior": 5000, "op.add_cell(8 vertices)": 300},
  "assumptions": COMMON_ASSUME + ["all cells of these meshes are created from eight vertices, with topology check, or from lists already in XF,XB,YF,YB,ZF,ZB order (the layout claim does not extend to unchecked lists in another order)"],
 },
 "C18": {
  "level": "fault_enumeration",
  "technique": "per generated file: EVERY truncation length, boundary-value substitution of every header / sub-header byte (judged when an independent decoder of the format description rejects the result), every chunk dropped / duplicated / pair swapped, input stream failing at every byte (short read and throwing), output stream failing after every byte count",
  "parts": [
    {"name": "rel", "flavor": "asan-rel", "monitor": "C18", "cases": {"quick": 60, "thorough": 160}, "case_timeout": 1800},
  ],
  "nontrivial": {"fn": lambda js: cnt(js, "c18.truncations") >= 48 and cnt(js, "c18.faults") >= 200,
                 "text": "case = one valid OVMB file produced by the writer from a generated poly/tet/hex mesh with 1-4 persistent properties (few hundred bytes to a few KiB). Faults enumerated per file: (a) all prefixes 0..size-1; (b) every byte of the file header, of every chunk header, of the VERT/TOPO/PROP sub-headers, the first DIRP bytes, all padding bytes and some payload bytes replaced by 15 boundary values (quick: 260 sampled positions; thorough: all) - a mutant is judged only if the independent ksy-based decoder rejects it (i.e. it is inconsistent by the published description); (c) every chunk dropped, every chunk duplicated, every pair of chunks swapped, an unknown mandatory chunk spliced in; (c2) 16 (thorough 60) re-encodings of the same content by the independent encoder with arrays split over several chunks and (mostly exactly one) inconsistency whose payload matches its declared count - a span that overlaps / overshoots / leaves a gap / is repeated / out of order, or a sub-header contradicting its payload layout - judged like (b); (d) the input stream stops delivering at byte k (short read / exception) for every k (quick: ~150 positions per file); (e) the output stream accepts only k bytes for every k. Every judged fault must yield a result other than Ok. non-trivial = >=48 truncations and >=200 judged faults in the case; distinct by file digest"},
  "floor": {"quick": 30, "thorough": 100},
  "min_counts": {"c18.truncations": 20000, "c18.substitutions": 50000, "c18.chunk-edits": 1000, "c18.read-faults": 5000, "c18.write-faults": 3000, "c18.span-edits": 300},
  "assumptions": COMMON_ASSUME + ["a mutated file is called inconsistent only when the reference decoder (harness/ovmb_ref.hh, from ovmb.ksy + documentation) rejects it; compression and file_version bytes are not judged"],
 },
 "C19": {
  "level": "exploration",
  "technique": "independent scalar re-computation (long double) of every VectorT operation over integer lattices (all ordered pairs), sampled/special floating-point values and all ordered pairs of distinct scalar types, under UBSan; geometric queries vs formulas on generated meshes (tets, pyramids, prisms, octahedra, free polygons)",
  "parts": [
    {"name": "vec", "flavor": "asan-dbg", "monitor": "C19", "sub": "vec", "cases": {"quick": 336, "thorough": 2400}},
    {"name": "geo", "flavor": "asan-dbg", "monitor": "C19", "sub": "geo", "cases": {"quick": 300, "thorough": 5000}},
  ],
  "nontrivial": {"fn": lambda js: cnt(js, "vec.pairs") >= 100 or (cnt(js, "geo.faces") >= 3 and cnt(js, "geo.halfedges") >= 6),
                 "text": "part vec: dims 2,3,4 x {int, unsigned, float, double}. Integer types: ALL ordered pairs over the lattice {-3..3}^DIM resp. {0..6}^DIM, chunked by first vector (quick: dims 2 and 3 complete, dim 4 sampled chunks; thorough: all three dims complete = 49+117649+5764801 pairs per type); floating types: random magnitudes over 60 binades + specials (0,-0, denormals, 1e17, 1e150, equal components, equal vectors). Every pair is pushed through + - * / (vector and scalar, in-place forms), unary minus, ==, !=, lexicographic <, |, dot, %, cross, sqrnorm, norm, length, normalize/normalized/normalize_cond, max/min/max_abs/min_abs/l1_norm/l8_norm/mean/mean_abs, minimize/maximize/minimized/maximized/min/max, converting constructor/assignment, << >> round trip, swap, vectorized; exact for integers, 8 ulp-scaled for floats. Every fourth sub-case: MIXED scalar types - the 12 ordered pairs of distinct scalar types x dims 2,3,4: dot/cross (result in the common type), + - * / between VectorT<A> and VectorT<B> and with a scalar of type B (result VectorT<A>), compound forms, converting construction, against the scalar C++ expression on the components (half of the pairs with values that make every intermediate exact, half with arbitrary values and an 8-ulp bound in the common type). part geo: random meshes (tets, square/pentagonal pyramids, prisms, octahedra + free polygons, positions with mixed magnitudes): vector/length/barycenter (edge, face, cell), halfface normal vs formula (well-conditioned faces), triangle normals of the two sides opposite, NormalAttrib face/halfface/vertex normals. non-trivial = >=100 pairs or >=3 faces and >=6 halfedges checked; distinct by chunk / mesh digest"},
  "floor": {"quick": 300, "thorough": 2000},
  "min_counts": {"vec.pairs": 500000, "geo.normals": 2000, "geo.opposite-normals": 500, "geo.cells": 200, "geo.cells.non-simplicial": 50, "vec.mixed-pairs": 50000},
  "assumptions": COMMON_ASSUME + ["floating-point results are compared within 8 ulp of the operation's magnitude; values whose squares overflow are excluded", "apply() is not named by the property and not judged"],
 },
 "C20": {
  "level": "exploration",
  "technique": "ThreadSanitizer on 2/4/8/16 barrier-released reader threads each executing the complete table of const queries (traversal, lookups, geometry, property reads through handles, by-name property lookups, registry counts) in its own random order on one shared const mesh; per-query results compared with a single-threaded reference",
  "parts": [
    {"name": "tsan", "flavor": "tsan", "monitor": "C20", "cases": {"quick": 48, "thorough": 1000}, "case_timeout": 900},
  ],
  "nontrivial": {"fn": lambda js: cnt(js, "overlapping-thread-pairs") >= 1 and cnt(js, "query-kinds") >= 40 and cnt(js, "concurrent-queries") >= 1000,
                 "text": "case = one mesh (poly/tet/hex in turn, built by a history in deferred mode so that deleted entities and live properties of int/bool/string are present) shared as const by 2, 4, 8 or 16 threads released by a barrier; every thread runs the whole query table (every circulator and iterator kind incl. boundary iterators, lookups, valence/boundary queries, edge/face/cell/halfedge/halfface, positions, PropertyPtr::operator[] const and value copies, geometry queries, tet/hex queries) on all entities in its own random order, 10 (thorough 30) rounds. TSan watches the run (reports with a frame inside the repository are violations, de-duplicated by entry points); each result is compared with the value computed before the threads started. non-trivial = >=1 pair of threads overlapped in time (timestamps), >=40 query kinds, >=1000 concurrent queries; distinct by mesh/thread-count digest"},
  "floor": {"quick": 20, "thorough": 400},
  "min_counts": {"concurrent-queries": 500000, "overlapping-thread-pairs": 100},
  "deadline": {"quick": 3000, "thorough": 6 * 3600},
  "assumptions": ["TSan (gcc 12) sees every memory access of the instrumented library and harness; libstdc++ is not instrumented but its containers are header code compiled with instrumentation", "only interleavings that actually occurred are judged; property creation/destruction is excluded as in the statement"],
 },
 "C17": {
  "level": "exploration",
  "technique": "handle-level before/after snapshot of every swap (tags, flags, all properties side by side), double-swap and self-swap identity, plus model and incidence oracles",
  "parts": [
    {"name": "dbg", "flavor": "asan-dbg", "monitor": "C17", "cases": {"quick": 600, "thorough": 10000}},
    {"name": "rel", "flavor": "asan-rel", "monitor": "C17", "cases": {"quick": 150, "thorough": 2500}},
  ],
  "nontrivial": {"fn": hist_rule(lambda js: sum(v for k, v in js.get("cnt", {}).items() if k.startswith("op.swap")) >= 4),
                 "text": "case = generated mesh + swap-heavy history in all deletion modes and bottom-up subsets; each swap is checked as pure relabeling at handle level, applied twice (identity), and self swaps must be no-ops. non-trivial = >=4 swaps and >=1 live cell; distinct by operation digest"},
  "floor": {"quick": 150, "thorough": 2500},
  "min_counts": {"predicates": 100000},
  "assumptions": COMMON_ASSUME + ["contents of deleted-but-not-collected slots are unspecified; only their flags are judged"],
 },
}

HOOK_COMMITS = []
NOT_APPLICABLE = {}
LEVEL_TEXT = {
 "C01": {"text": "Runtime exploration: thousands of generated histories over soups, tet and hex complexes in all deletion modes and incidence subsets; after every operation every upward query is compared with a naive scan and the cache arrays are inspected directly, all under ASan+UBSan with range-checked vectors. Held on the executions listed in the evidence, not a proof.",
         "note": "trusted: edge()/face()/cell()/is_deleted()/n_*() accessors, gcc sanitizer runtimes, the generators' validity guards (no halfface in two live cells)"},
 "C02": {"text": "Runtime exploration with an executable reference model in id space: every generated base is driven through the same deletion-heavy history in all four (deferred x fast) modes and compared with the model after every step (survivors, definitions, counters, flags, genus).",
         "note": "trusted: the model's 30-line closure computation, identity carried by monitor-owned tag properties (cross-checked by positions)"},
 "C03": {"text": "Runtime exploration: shadow copies of every property value keyed by stable entity id (and side) are compared after every step of histories that delete, collect, swap, clear and grow; sizes and default values of fresh slots are checked at the moment of growth.",
         "note": "trusted: value comparison through a lossless textual representation (%a for doubles); deleted-but-uncollected slots are not judged"},
 "C04": {"text": "Runtime exploration: the reference model predicts in id space what every kind of collection must leave (closure of marks, manifold cascade); after the call the mesh, all property values and every tracked handle are compared; deferred and immediate runs share the model.",
         "note": "trusted: the model's cascade (faces bounding no cell, then edges without face, then vertices without edge)"},
 "C05": {"text": "Runtime exploration: every iterator/circulator kind is exercised on every live centre of thousands of reached states and compared with brute-force incident sets and with its own other protocols (the oracle needs no expected numbers).",
         "note": "trusted: Scan; iterator copies compare with operator== of the library (also cross-checked by handle+lap)"},
 "C06": {"text": "Runtime exploration with an independent implementation of the format: thousands of generated meshes with properties of every registered type are written, decoded independently, re-encoded in every permitted variant and read back; equality is bit-exact on a canonical form.",
         "note": "trusted: the reference decoder/encoder (cross-checked against each other on every variant); Canon extraction through cast_to_StorageT"},
 "C07": {"text": "Runtime exploration (structured fuzzing without coverage feedback in the quick tier): hundreds of thousands of hostile inputs per format under ASan/UBSan with range-checked containers; a success is cross-examined by a validity walk.",
         "note": "trusted: sanitizers + _GLIBCXX_ASSERTIONS to surface out-of-range accesses; the watchdog (600 s per case) for termination"},
 "C08": {"text": "Conversion identities: quick samples ranges, thorough enumerates every index in [0,2^30) (complete for that sub-space) under UBSan; mirror identities are explored on every edge/face of thousands of reached states.",
         "note": "trusted: UBSan for the arithmetic; Scan for the stored definitions"},
 "C09": {"text": "Runtime exploration: the fan structure around every edge is recomputed by brute force after every step and the reported order is checked against the successor relation; adjacency in cells against the unique-candidate scan.",
         "note": "trusted: the fan classifier (only edges it accepts are judged); scan accessors"},
 "C10": {"text": "Runtime exploration: every lookup is compared with a brute-force search classified must-find / must-be-invalid / either; argument spaces are enumerated completely on small states and sampled on larger ones.",
         "note": "trusted: the classification rules of DESIGN.md section 3.4 (parallel edges make some answers unspecified; misses caused by them are reported under their own key)"},
 "C11": {"text": "Runtime exploration: acceptance is predicted by brute force for crafted valid and invalid argument lists; rejection/deduplication must be a no-op on the full observable snapshot.",
         "note": "trusted: snapshot completeness (definitions, flags, counts, modes, raw caches, tag and user property arrays, persistent properties, positions)"},
 "C12": {"text": "Runtime exploration with a differential twin: an all-incidences mesh and a partially-disabled, toggled mesh run the same call stream; equality handle for handle after every step, plus C01/C09 oracles on the toggled mesh and invalid-circulator probes.",
         "note": "trusted: Twin::apply replays exactly the recorded API calls; the twin itself is the library (a defect common to both paths is caught by C01/C02 instead)"},
 "C13": {"text": "Runtime exploration: copies are compared with their source on a complete snapshot and then both meshes are mutated in turn under ASan while the other one's snapshot (including held property arrays) must stay bit-identical.",
         "note": "trusted: snapshot completeness; shared storage would show as a changed snapshot or an ASan report"},
 "C14": {"text": "Runtime exploration against an executable model of the registry (about 60 lines): every observable of the registry is compared after every call of random programs; lifetime errors surface as ASan/LSan reports.",
         "note": "trusted: the registry model; write-through as the identity observation"},
 "C15": {"text": "Runtime exploration: contracts are evaluated on every cell/halfface/halfedge/label of the reached tet complexes; collapse_edge is checked against the id-space prediction incl. orientation parity in all four deletion modes.",
         "note": "trusted: the brute-force link condition and cell tuple computation"},
 "C16": {"text": "Runtime exploration: the layout and navigation contracts are recomputed from vertex sets for every live hexahedron of the reached states; permutations of valid halfface lists probe the re-ordering code (all 720 in the thorough tier).",
         "note": "trusted: Scan and the vertex-set based neighbour computation"},
 "C18": {"text": "Fault enumeration: for every generated file every truncation point, every header byte position x boundary value, every chunk-level edit and every stream failure position is tried (thorough: complete per file); the result must never be Ok for an inconsistent file.",
         "note": "trusted: the reference decoder as the definition of 'inconsistent'; FaultyInBuf/FaultyOutBuf as models of failing streams"},
 "C19": {"text": "Integer vector algebra is enumerated completely over small lattices (all ordered pairs; thorough tier all dims) and sampled for floating point with special values; geometry queries are re-computed from positions on generated meshes.",
         "note": "trusted: long double reference arithmetic; tolerances as stated"},
 "C20": {"text": "Race detection on real concurrent executions: ThreadSanitizer observes overlapping reader threads running every const query kind; determinism is checked per query against a single-threaded reference. Schedules are sampled, not enumerated.",
         "note": "trusted: TSan's happens-before analysis; thread overlap is measured and reported"},
 "C17": {"text": "Runtime exploration: every swap is observed at handle level (tags, deletion flags, all property arrays side by side) before/after, repeated (identity) and with equal arguments (no-op), combined with the model and incidence oracles.",
         "note": "trusted: snapshots read through the public API; contents of deleted slots unspecified"},
}
