#!/bin/sh
# usage: lib/verify_seed.sh <scratch worktree of /repo with a seeded change applied and seeded/{patch.diff,demo.cc}>
# confirms a seeded change: unit tests pass with it, the demonstration fails with it and passes without it.
WT=$1
cd $WT || exit 2
git diff -- src > /tmp/vs_cur.diff
if ! diff -q /tmp/vs_cur.diff seeded/patch.diff >/dev/null; then echo "WARN: worktree diff differs from seeded/patch.diff"; fi
echo "== tests with change"
cmake --build _build -j8 > /tmp/vs_build.log 2>&1 || { echo "BUILD FAILED"; tail -5 /tmp/vs_build.log; }
(cd _build/Unittests && ../Build/bin/unittests --gtest_filter='-PolyhedralFileTest*SaveFile*' 2>&1 | tail -3)
echo "== demo with change"
g++ -std=c++17 -O1 -pthread -I$WT/src -I$WT/_build/src seeded/demo.cc $WT/_build/Build/lib/libOpenVolumeMesh.a -o /tmp/vs_demo_changed 2>&1 | tail -3
(cd seeded && timeout 120 /tmp/vs_demo_changed > /tmp/vs_demo_changed.out 2>&1; echo "rc=$?"; tail -2 /tmp/vs_demo_changed.out)
echo "== demo without change"
git apply -R seeded/patch.diff || { echo "cannot revert"; exit 2; }
cmake --build _build -j8 --target OpenVolumeMesh > /tmp/vs_build2.log 2>&1
g++ -std=c++17 -O1 -pthread -I$WT/src -I$WT/_build/src seeded/demo.cc $WT/_build/Build/lib/libOpenVolumeMesh.a -o /tmp/vs_demo_orig 2>&1 | tail -3
(cd seeded && timeout 120 /tmp/vs_demo_orig > /tmp/vs_demo_orig.out 2>&1; echo "rc=$?"; tail -2 /tmp/vs_demo_orig.out)
git apply seeded/patch.diff
